import SstModel.Lemmas.Faulty
import SstModel.Lemmas.FaultyScan
import SstModel.Lemmas.MultiDamage
import SstModel.Lemmas.FaultyWitness
import SstModel.Props.ReaderWF
/-
  C07 (table level) — An alteration of stored bytes confined to ONE data block never turns into a wrong
  answer; only the damaged block is lost.

  `t` is a well-formed table image (`t.WF cmp`), `d0 ∈ t.blocks` one of its data blocks, `img'` the stored
  bytes after the alteration, described by `Damaged p t d0 img'`: same length, same footer slice, the
  buffers a reader obtains for the index block, the metaindex block, the filter block and every OTHER data
  block are unchanged, and the damaged block no longer verifies (`blockAt img' d0.handle = err Corruption`).
  `C07_block_altered` / `C07_block_altered_cksum` prove the last clause for every alteration confined to
  ≤ 4 consecutive bytes of contents + type byte, or to the checksum field; `C07_damaged_of_window` builds
  the whole of `Damaged` for such an alteration when the other regions lie outside the altered window.

  Then, on a world holding `img'` (fault-free source): opening succeeds with the very handle the intact
  image gives; the damaged block is reported as `Corruption` and is never cached; a lookup of a key the
  index routes elsewhere (or nowhere, or that the filter rejects) returns exactly what the intact table
  stores; a lookup routed to the damaged block returns `Corruption` — never absence, never another value.
-/
namespace Sst
open Spec

/-- C07: every alteration of a verified physical block confined to ≤ 4 consecutive bytes of its
    contents + type byte makes it unreadable (`Corruption`); image = `pre ++ w ++ post`, window `w ↦ w'` -/
theorem C07_block_altered (pre w w' post : Bytes) (h : BlockHandle) (c : Bytes)
    (hlen : w.length = w'.length) (h4 : w.length ≤ 4) (hne : w ≠ w')
    (hlo : h.offset ≤ pre.length) (hhi : pre.length + w.length ≤ h.offset + h.size + 1)
    (hb : h.offset + h.size + 5 ≤ (pre ++ w ++ post).length)
    (hok : blockAt (pre ++ w ++ post) h = .ok c) :
    blockAt (pre ++ w' ++ post) h = .err .corruption :=
  FT.blockAt_altered pre w w' post h c hlen h4 hne hlo hhi hb hok

/-- C07: … and so does every alteration of its 4 checksum bytes -/
theorem C07_block_altered_cksum (pre ck ck' post : Bytes) (h : BlockHandle) (c : Bytes)
    (hck : ck.length = 4) (hck' : ck'.length = 4) (hne : ck ≠ ck')
    (hat : pre.length = h.offset + h.size + 1)
    (hok : blockAt (pre ++ ck ++ post) h = .ok c) :
    blockAt (pre ++ ck' ++ post) h = .err .corruption :=
  FT.blockAt_altered_cksum pre ck ck' post h c hck hck' hne hat hok

/-- C07: replacing ≤ 4 consecutive bytes inside contents + type byte of data block `d0` of a well-formed
    image, all other regions the reader uses (index, metaindex, filter, other data blocks, footer) lying
    outside the altered window, gives a `Damaged` image — the hypothesis of the theorems below -/
theorem C07_damaged_of_window (cmp : Cmp) (p : FilterPolicy) (t : TableImg) (hwf : t.WF cmp) (d0 : DBlock)
    (hd0 : d0 ∈ t.blocks) (pre w w' post : Bytes) (himg : t.img = pre ++ w ++ post)
    (hlen : w.length = w'.length) (h4 : w.length ≤ 4) (hne : w ≠ w')
    (hlo : d0.handle.offset ≤ pre.length)
    (hhi : pre.length + w.length ≤ d0.handle.offset + d0.handle.size + 1)
    (hfoot : pre.length + w.length ≤ t.img.length - 48)
    (hindex : FT.Outside pre.length (pre.length + w.length) t.indexHandle)
    (hmeta : FT.Outside pre.length (pre.length + w.length) t.metaHandle)
    (hfilter : ∀ v fh n, (Table.filterName p, v) ∈ t.metaix.kvs → BlockHandle.tryDecode v = some (fh, n) →
      FT.Outside pre.length (pre.length + w.length) fh)
    (hdata : ∀ d ∈ t.blocks, d ≠ d0 → FT.Outside pre.length (pre.length + w.length) d.handle) :
    Damaged p t d0 (pre ++ w' ++ post) :=
  FT.damaged_of_window cmp p t hwf d0 hd0 pre w w' post himg hlen h4 hne hlo hhi hfoot hindex hmeta
    hfilter hdata

section
variable (cmp : Cmp) (hc : cmp.Lawful) (p : FilterPolicy) (t : TableImg) (hwf : t.WF cmp)
  (fv : Option Bytes) (d0 : DBlock) (img' : Bytes) (hdm : Damaged p t d0 img')
include hc hwf hdm

/-- C07 (open is unaffected): only a data block was touched, so `Table::new` on the damaged image
    succeeds, and the handle is `Opened` on the INTACT image `t`: same size, options, footer, index block
    and filter reader -/
theorem C07_open_unaffected (hfv : FilterView p t fv) (w : World) (file : Nat)
    (hcw : CleanWorld w file img') :
    ∃ w1 tb', Table.new ⟨cmp, p⟩ file img'.length w = (w1, .ok tb')
      ∧ Opened tb' t cmp p fv ∧ tb'.file = file
      ∧ tb'.cacheId = (w.cache.nextId + 1) % 2 ^ 64
      ∧ CleanWorld w1 file img' ∧ w1.files = w.files
      ∧ w1.cache.entries = w.cache.entries ∧ w1.cache.cap = w.cache.cap
      ∧ w1.cache.nextId = (w.cache.nextId + 1) % 2 ^ 64
      ∧ w1.events = w.events :=
  FT.open_dmg cmp hc p t hwf fv d0 img' hdm hfv w file hcw

/-- C07 (open is unaffected), stated against the intact image: opening the damaged file returns exactly the
    handle that opening the intact file returns (same file id, same cache) -/
theorem C07_open_same_handle (hfv : FilterView p t fv) (w w0 : World) (file : Nat)
    (hcw : CleanWorld w file img') (hcw0 : CleanWorld w0 file t.img) (hcache : w0.cache = w.cache) :
    ∃ tb, (Table.new ⟨cmp, p⟩ file img'.length w).2 = .ok tb
      ∧ (Table.new ⟨cmp, p⟩ file t.img.length w0).2 = .ok tb := by
  obtain ⟨w1, tb', hnew', hop', hf', hid', _⟩ := FT.open_dmg cmp hc p t hwf fv d0 img' hdm hfv w file hcw
  obtain ⟨w2, tb, hnew, hop, hf, hid, _⟩ := open_ok cmp hc p t hwf fv hfv w0 file hcw0
  have : tb' = tb := FT.opened_eq hop' hop (hf'.trans hf.symm) (by rw [hid', hid, hcache])
  subst this
  exact ⟨tb', by rw [hnew'], by rw [hnew]⟩

variable (tb : Table) (hop : Opened tb t cmp p fv)
include hop

/-- C07 (the damaged block is reported): reading it through the cache returns `Corruption`; nothing is
    cached (the cache is what the lookup left) and the invariants are kept -/
theorem C07_damaged_block_reported (w : World) (hcw : CleanWorld w tb.file img')
    (hcoh : CoherentBut w tb.cacheId t d0) :
    ∃ w', tb.readBlock d0.handle w = (w', .err .corruption)
      ∧ CleanWorld w' tb.file img' ∧ CoherentBut w' tb.cacheId t d0
      ∧ w'.cache = (w.cache.get (tb.cacheId, d0.handle.offset % 2 ^ 64)).1 :=
  FT.readBlock_dmg_bad cmp hc p t hwf fv d0 img' hdm tb hop w hcw hcoh

/-- C07 (the other blocks are intact): reading any other data block returns its true contents -/
theorem C07_other_blocks_intact (w : World) (hcw : CleanWorld w tb.file img')
    (hcoh : CoherentBut w tb.cacheId t d0) (d : DBlock) (hd : d ∈ t.blocks) (hne : d ≠ d0) :
    ∃ w', tb.readBlock d.handle w = (w', .ok d.blk.contents)
      ∧ CleanWorld w' tb.file img' ∧ CoherentBut w' tb.cacheId t d0 :=
  FT.readBlock_dmg_other cmp hc p t hwf fv d0 img' hdm tb hop w hcw hcoh d hd hne

variable (hsound : ∀ fb, fv = some fb → FilterSound p t fb)
  (hfwf : ∀ fb, fv = some fb → FilterBlockReader.isWellFormed fb = true)
include hsound hfwf

/-- C07 (lookups): on the damaged image, a key the index routes to the damaged block (`Routed`) and the
    filter lets pass gets `Corruption`; EVERY other key — routed to another block, to no block, or
    rejected by the (sound) filter — gets exactly the answer of the intact table. The invariants
    (`CleanWorld`, `CoherentBut`: nothing of the damaged block is cached) are kept, so the statement
    applies to every later lookup as well -/
theorem C07_get_right_or_error (w : World) (hcw : CleanWorld w tb.file img')
    (hcoh : CoherentBut w tb.cacheId t d0) (k : Bytes) :
    ∃ w', CleanWorld w' tb.file img' ∧ CoherentBut w' tb.cacheId t d0
      ∧ (Routed cmp t k d0 ∧ FT.FilterPasses tb p d0 k → tb.get k w = (w', .err .corruption))
      ∧ (¬ (Routed cmp t k d0 ∧ FT.FilterPasses tb p d0 k) →
            tb.get k w = (w', .ok (Spec.lookup cmp t.entries k))) :=
  FT.get_dmg cmp hc p t hwf fv d0 img' hdm tb hop hsound hfwf w hcw hcoh k

/-- C07 (never a wrong answer): every lookup on the damaged image returns the answer of the intact table
    or `Corruption` — never `None` for a stored key, never another key's value, no other error -/
theorem C07_get_never_wrong (w : World) (hcw : CleanWorld w tb.file img')
    (hcoh : CoherentBut w tb.cacheId t d0) (k : Bytes) :
    ∃ w', CleanWorld w' tb.file img' ∧ CoherentBut w' tb.cacheId t d0
      ∧ (tb.get k w = (w', .ok (Spec.lookup cmp t.entries k)) ∨ tb.get k w = (w', .err .corruption)) := by
  obtain ⟨w', h1, h2, h3, h4⟩ := FT.get_dmg cmp hc p t hwf fv d0 img' hdm tb hop hsound hfwf w hcw hcoh k
  refine ⟨w', h1, h2, ?_⟩
  by_cases h : Routed cmp t k d0 ∧ FT.FilterPasses tb p d0 k
  · exact .inr (h3 h)
  · exact .inl (h4 h)

/-- C07 (keys of the damaged block): a lookup of a key stored in the damaged block returns `Corruption` —
    not `None`, not a value -/
theorem C07_damaged_keys_error (w : World) (hcw : CleanWorld w tb.file img')
    (hcoh : CoherentBut w tb.cacheId t d0) (k : Bytes) (hk : k ∈ d0.keys) :
    ∃ w', tb.get k w = (w', .err .corruption) := by
  obtain ⟨w', _, _, h3, _⟩ := FT.get_dmg cmp hc p t hwf fv d0 img' hdm tb hop hsound hfwf w hcw hcoh k
  exact ⟨w', h3 ⟨FT.routed_of_key cmp hc t hwf d0 hdm.mem k hk,
    FT.passes_of_key hop hsound d0 hdm.mem k hk⟩⟩

/-- C07 (keys of the other blocks stay exact): a stored key of any block other than the damaged one is
    still found with its value -/
theorem C07_other_keys_exact (w : World) (hcw : CleanWorld w tb.file img')
    (hcoh : CoherentBut w tb.cacheId t d0) (k : Bytes) (hnr : ¬ Routed cmp t k d0) :
    ∃ w', tb.get k w = (w', .ok (Spec.lookup cmp t.entries k)) := by
  obtain ⟨w', _, _, _, h4⟩ := FT.get_dmg cmp hc p t hwf fv d0 img' hdm tb hop hsound hfwf w hcw hcoh k
  exact ⟨w', h4 (fun h => hnr h.1)⟩

/-- C07 (stored keys of the other blocks are still found): for a key stored in a block other than the
    damaged one the lookup returns exactly what the intact table stores under it -/
theorem C07_other_stored_keys_found (w : World) (hcw : CleanWorld w tb.file img')
    (hcoh : CoherentBut w tb.cacheId t d0) (d : DBlock) (hd : d ∈ t.blocks) (hne : d ≠ d0)
    (k : Bytes) (hk : k ∈ d.keys) :
    ∃ w', tb.get k w = (w', .ok (Spec.lookup cmp t.entries k)) := by
  obtain ⟨w', _, _, _, h4⟩ := FT.get_dmg cmp hc p t hwf fv d0 img' hdm tb hop hsound hfwf w hcw hcoh k
  refine ⟨w', h4 ?_⟩
  intro ⟨⟨bi, hb1, hb2⟩, _⟩
  obtain ⟨bi', hb1', hb2'⟩ := FT.routed_of_key cmp hc t hwf d hd k hk
  rw [hb1] at hb1'
  cases hb1'
  rw [hb2] at hb2'
  exact hne (Option.some.inj hb2').symm

end

/-- C07, end to end: a clean world holding the damaged image, an empty cache: open succeeds and every
    lookup returns the intact table's answer or `Corruption` -/
theorem C07_open_get (cmp : Cmp) (hc : cmp.Lawful) (p : FilterPolicy) (t : TableImg) (hwf : t.WF cmp)
    (fv : Option Bytes) (d0 : DBlock) (img' : Bytes) (hdm : Damaged p t d0 img')
    (hfv : FilterView p t fv) (hsound : ∀ fb, fv = some fb → FilterSound p t fb)
    (w : World) (file : Nat) (hcw : CleanWorld w file img') (hempty : w.cache.entries = []) (k : Bytes) :
    ∃ w1 tb w2, Table.new ⟨cmp, p⟩ file img'.length w = (w1, .ok tb)
      ∧ (tb.get k w1 = (w2, .ok (Spec.lookup cmp t.entries k)) ∨ tb.get k w1 = (w2, .err .corruption))
      ∧ (¬ Routed cmp t k d0 → tb.get k w1 = (w2, .ok (Spec.lookup cmp t.entries k))) := by
  obtain ⟨w1, tb, hnew, hop, hfile, _, hcw1, _, hent, _⟩ :=
    FT.open_dmg cmp hc p t hwf fv d0 img' hdm hfv w file hcw
  have hfwf : ∀ fb, fv = some fb → FilterBlockReader.isWellFormed fb = true := by
    intro fb hfb
    subst hfb
    cases hfv with
    | present v fh n fb h hd hz hb hr hw => exact hw
  have hcoh : CoherentBut w1 tb.cacheId t d0 := by
    intro off c hmem
    rw [hent, hempty] at hmem
    cases hmem
  obtain ⟨w2, _, _, h3, h4⟩ :=
    FT.get_dmg cmp hc p t hwf fv d0 img' hdm tb hop hsound hfwf w1 (hfile ▸ hcw1) hcoh k
  refine ⟨w1, tb, w2, hnew, ?_, fun hnr => h4 (fun h => hnr h.1)⟩
  by_cases h : Routed cmp t k d0 ∧ FT.FilterPasses tb p d0 k
  · exact .inr (h3 h)
  · exact .inl (h4 h)

/-! ### scans of a damaged table -/

/-- C07 (scans): on the damaged image (fault-free source), from a before-first iterator (a fresh iterator,
    or any iterator after `reset`), the forward scan yields exactly the entries of every data block other
    than the damaged one — only original entries, in table order, every entry of each block whose bytes
    still verify — and then `none`: `t.entries.length - |d0| + 1` calls of `next`. `pre` / `post` are the
    blocks before / after `d0` (a block occurs once in a well-formed table). The invariants are kept and
    the iterator is before-first again. -/
theorem C07_scan (cmp : Cmp) (hc : cmp.Lawful) (p : FilterPolicy) (t : TableImg) (hwf : t.WF cmp)
    (fv : Option Bytes) (d0 : DBlock) (img' : Bytes) (hdm : Damaged p t d0 img')
    (tb : Table) (hop : Opened tb t cmp p fv)
    (pre post : List DBlock) (hsplit : t.blocks = pre ++ d0 :: post)
    (w : World) (hcw : CleanWorld w tb.file img') (hcoh : CoherentBut w tb.cacheId t d0)
    (it : TableIter) (hs : SimT t tb it none) :
    ∃ w' it', it.run (List.replicate (t.entries.length - d0.blk.kvs.length + 1) IterOp.next) w
          = (w', .ok (it', ((pre ++ post).flatMap (·.blk.kvs)).map (fun e => IterOut.entry (some e))
                            ++ [IterOut.entry none]))
      ∧ CleanWorld w' tb.file img' ∧ CoherentBut w' tb.cacheId t d0 ∧ SimT t tb it' none := by
  obtain ⟨w', it', hrun, h1, h2, h3⟩ :=
    FT.scan_dmg cmp hc p t hwf fv d0 img' hdm tb hop pre post hsplit w hcw hcoh it hs
  have hk := FT.entries_split cmp hc p t hwf fv d0 img' hdm tb hop pre post hsplit
  have : t.entries.length - d0.blk.kvs.length = ((pre ++ post).flatMap (·.blk.kvs)).length := by omega
  rw [this]
  exact ⟨w', it', hrun, h1, h2, h3⟩

/-- the damaged block has a position: the split `C07_scan` asks for exists -/
theorem C07_scan_split (p : FilterPolicy) (t : TableImg) (d0 : DBlock) (img' : Bytes)
    (hdm : Damaged p t d0 img') : ∃ pre post, t.blocks = pre ++ d0 :: post :=
  List.append_of_mem hdm.mem

/-- C07 (open + scan, end to end): a clean world holding the damaged image, an empty cache: open succeeds,
    a fresh iterator exists and its forward scan returns exactly the entries outside the damaged block -/
theorem C07_open_scan (cmp : Cmp) (hc : cmp.Lawful) (p : FilterPolicy) (t : TableImg) (hwf : t.WF cmp)
    (fv : Option Bytes) (d0 : DBlock) (img' : Bytes) (hdm : Damaged p t d0 img')
    (hfv : FilterView p t fv) (pre post : List DBlock) (hsplit : t.blocks = pre ++ d0 :: post)
    (w : World) (file : Nat) (hcw : CleanWorld w file img') (hempty : w.cache.entries = []) :
    ∃ w1 tb it w2 it2, Table.new ⟨cmp, p⟩ file img'.length w = (w1, .ok tb)
      ∧ TableIter.new tb w1 = (w1, .ok it)
      ∧ it.run (List.replicate (t.entries.length - d0.blk.kvs.length + 1) IterOp.next) w1
          = (w2, .ok (it2, ((pre ++ post).flatMap (·.blk.kvs)).map (fun e => IterOut.entry (some e))
                            ++ [IterOut.entry none])) := by
  obtain ⟨w1, tb, hnew, hop, hfile, _, hcw1, _, hent, _⟩ :=
    FT.open_dmg cmp hc p t hwf fv d0 img' hdm hfv w file hcw
  have hcoh : CoherentBut w1 tb.cacheId t d0 := by
    intro off c hmem
    rw [hent, hempty] at hmem
    cases hmem
  obtain ⟨it, hit, hs⟩ := iter_new_ok cmp hc p t hwf fv tb hop w1
  obtain ⟨w2, it2, hrun, _⟩ :=
    C07_scan cmp hc p t hwf fv d0 img' hdm tb hop pre post hsplit w1 (hfile ▸ hcw1) hcoh it hs
  exact ⟨w1, tb, it, w2, it2, hnew, hit, hrun⟩

/-! ### damage to checksummed metadata is detected -/

/-- C07 (block level, both cases at once): an alteration confined to ≤ 4 consecutive bytes lying inside
    contents + type byte of a verified physical block, or inside its 4 checksum bytes (`FT.WindowIn`),
    makes the block `Corruption` -/
theorem C07_block_altered_any (pre w w' post : Bytes) (h : BlockHandle) (c : Bytes)
    (hlen : w.length = w'.length) (h4 : w.length ≤ 4) (hne : w ≠ w')
    (hin : FT.WindowIn h pre.length w.length)
    (hb : h.offset + h.size + 5 ≤ (pre ++ w ++ post).length)
    (hok : blockAt (pre ++ w ++ post) h = .ok c) :
    blockAt (pre ++ w' ++ post) h = .err .corruption :=
  FT.blockAt_altered_any pre w w' post h c hlen h4 hne hin hb hok

section
variable (cmp : Cmp) (hc : cmp.Lawful) (p : FilterPolicy) (t : TableImg) (hwf : t.WF cmp)
  (img' : Bytes) (hlen : img'.length = t.img.length)
  (hfoot : img'.drop (img'.length - 48) = t.img.drop (t.img.length - 48))
include hwf hlen hfoot

/-- C07 (index block, abstract form): same length, same footer, the index block no longer verifies:
    `Table::new` fails with `Corruption`, whatever the reader options; the cache is untouched -/
theorem C07_index_unreadable_detected (hbad : blockAt img' t.indexHandle = .err .corruption)
    (opt : ROpts) (w : World) (file : Nat) (hcw : CleanWorld w file img') :
    ∃ w', Table.new opt file img'.length w = (w', .err .corruption) ∧ w'.cache = w.cache :=
  FT.open_index_dmg cmp t hwf img' hlen hfoot hbad opt w file hcw

/-- C07 (metaindex block, abstract form): the index block is intact, the metaindex block no longer
    verifies: `Table::new` fails with `Corruption` -/
theorem C07_metaindex_unreadable_detected
    (hindex : cleanBuf img' t.indexHandle.offset (t.indexHandle.size + 5)
      = cleanBuf t.img t.indexHandle.offset (t.indexHandle.size + 5))
    (hbad : blockAt img' t.metaHandle = .err .corruption)
    (opt : ROpts) (w : World) (file : Nat) (hcw : CleanWorld w file img') :
    ∃ w', Table.new opt file img'.length w = (w', .err .corruption) ∧ w'.cache = w.cache :=
  FT.open_meta_dmg cmp t hwf img' hlen hfoot hindex hbad opt w file hcw

include hc in
/-- C07 (filter block, abstract form): index and metaindex blocks intact, the filter block the metaindex
    records under the READER's policy name (non-empty handle, in bounds) no longer verifies: `Table::new`
    fails with `Corruption` — the filter is neither used nor silently dropped -/
theorem C07_filter_unreadable_detected
    (hindex : cleanBuf img' t.indexHandle.offset (t.indexHandle.size + 5)
      = cleanBuf t.img t.indexHandle.offset (t.indexHandle.size + 5))
    (hmeta : cleanBuf img' t.metaHandle.offset (t.metaHandle.size + 5)
      = cleanBuf t.img t.metaHandle.offset (t.metaHandle.size + 5))
    (v : Bytes) (fh : BlockHandle) (n : Nat) (hmem : (Table.filterName p, v) ∈ t.metaix.kvs)
    (hd : BlockHandle.tryDecode v = some (fh, n)) (hz : fh.size > 0) (hb : InBounds fh t.img.length)
    (hbad : blockAt img' fh = .err .corruption)
    (w : World) (file : Nat) (hcw : CleanWorld w file img') :
    ∃ w', Table.new ⟨cmp, p⟩ file img'.length w = (w', .err .corruption) ∧ w'.cache = w.cache :=
  FT.open_filter_dmg cmp hc p t hwf img' hlen hfoot hindex hmeta v fh n hmem hd hz hb hbad w file hcw

end

section
variable (cmp : Cmp) (hc : cmp.Lawful) (p : FilterPolicy) (t : TableImg) (hwf : t.WF cmp)
  (pre w w' post : Bytes) (himg : t.img = pre ++ w ++ post)
  (hlen : w.length = w'.length) (h4 : w.length ≤ 4) (hne : w ≠ w')
  (hfoot : pre.length + w.length ≤ t.img.length - 48)
include hwf himg hlen h4 hne hfoot

/-- C07 (index block): replacing ≤ 4 consecutive bytes inside the physical index block (contents + type
    byte, or the checksum field), the footer lying outside the window: `Table::new` on the altered file
    fails with `Corruption` -/
theorem C07_index_damage_detected (hin : FT.WindowIn t.indexHandle pre.length w.length)
    (opt : ROpts) (wd : World) (file : Nat) (hcw : CleanWorld wd file (pre ++ w' ++ post)) :
    ∃ w1, Table.new opt file (pre ++ w' ++ post).length wd = (w1, .err .corruption)
      ∧ w1.cache = wd.cache := by
  have hl : (pre ++ w' ++ post).length = t.img.length := by
    rw [himg]; simp only [List.length_append]; omega
  have hft : (pre ++ w' ++ post).drop ((pre ++ w' ++ post).length - 48) = t.img.drop (t.img.length - 48) := by
    rw [hl, himg]
    exact FT.drop_outside_window pre w w' post hlen _ (by rw [← himg]; exact hfoot)
  have hb := hwf.indexBounds.2
  simp only [Consts.tableBlockCksumLen, Consts.tableBlockCompressLen] at hb
  have hok := (FT.blockAt_of_tableBlockAt hwf.indexRead).1
  rw [himg] at hok hb
  exact FT.open_index_dmg cmp t hwf _ hl hft
    (FT.blockAt_altered_any pre w w' post _ _ hlen h4 hne hin (by omega) hok) opt wd file hcw

/-- C07 (metaindex block): the same for the metaindex block, the index block lying outside the window -/
theorem C07_metaindex_damage_detected (hin : FT.WindowIn t.metaHandle pre.length w.length)
    (hindex : FT.Outside pre.length (pre.length + w.length) t.indexHandle)
    (opt : ROpts) (wd : World) (file : Nat) (hcw : CleanWorld wd file (pre ++ w' ++ post)) :
    ∃ w1, Table.new opt file (pre ++ w' ++ post).length wd = (w1, .err .corruption)
      ∧ w1.cache = wd.cache := by
  have hl : (pre ++ w' ++ post).length = t.img.length := by
    rw [himg]; simp only [List.length_append]; omega
  have hft : (pre ++ w' ++ post).drop ((pre ++ w' ++ post).length - 48) = t.img.drop (t.img.length - 48) := by
    rw [hl, himg]
    exact FT.drop_outside_window pre w w' post hlen _ (by rw [← himg]; exact hfoot)
  have hb := hwf.metaBounds.2
  simp only [Consts.tableBlockCksumLen, Consts.tableBlockCompressLen] at hb
  have hok := (FT.blockAt_of_tableBlockAt hwf.metaRead).1
  have hix : cleanBuf (pre ++ w' ++ post) t.indexHandle.offset (t.indexHandle.size + 5)
      = cleanBuf t.img t.indexHandle.offset (t.indexHandle.size + 5) := by
    rw [himg]; exact FT.cleanBuf_outside_window pre w w' post hlen _ _ hindex
  rw [himg] at hok hb
  exact FT.open_meta_dmg cmp t hwf _ hl hft hix
    (FT.blockAt_altered_any pre w w' post _ _ hlen h4 hne hin (by omega) hok) opt wd file hcw

include hc in
/-- C07 (filter block): the same for the filter block the reader's policy sees (`FilterView p t (some fb)`:
    the metaindex has an entry under this policy's name with a non-empty handle), index and metaindex
    blocks lying outside the window: `Table::new` fails with `Corruption` -/
theorem C07_filter_damage_detected (fb : Bytes) (hfv : FilterView p t (some fb))
    (hin : ∀ v fh n, (Table.filterName p, v) ∈ t.metaix.kvs → BlockHandle.tryDecode v = some (fh, n) →
      FT.WindowIn fh pre.length w.length)
    (hindex : FT.Outside pre.length (pre.length + w.length) t.indexHandle)
    (hmeta : FT.Outside pre.length (pre.length + w.length) t.metaHandle)
    (wd : World) (file : Nat) (hcw : CleanWorld wd file (pre ++ w' ++ post)) :
    ∃ w1, Table.new ⟨cmp, p⟩ file (pre ++ w' ++ post).length wd = (w1, .err .corruption)
      ∧ w1.cache = wd.cache := by
  have hl : (pre ++ w' ++ post).length = t.img.length := by
    rw [himg]; simp only [List.length_append]; omega
  have hft : (pre ++ w' ++ post).drop ((pre ++ w' ++ post).length - 48) = t.img.drop (t.img.length - 48) := by
    rw [hl, himg]
    exact FT.drop_outside_window pre w w' post hlen _ (by rw [← himg]; exact hfoot)
  have hix : cleanBuf (pre ++ w' ++ post) t.indexHandle.offset (t.indexHandle.size + 5)
      = cleanBuf t.img t.indexHandle.offset (t.indexHandle.size + 5) := by
    rw [himg]; exact FT.cleanBuf_outside_window pre w w' post hlen _ _ hindex
  have hmx : cleanBuf (pre ++ w' ++ post) t.metaHandle.offset (t.metaHandle.size + 5)
      = cleanBuf t.img t.metaHandle.offset (t.metaHandle.size + 5) := by
    rw [himg]; exact FT.cleanBuf_outside_window pre w w' post hlen _ _ hmeta
  cases hfv with
  | present v fh n fb hm hd hz hb hr hw =>
    have hb2 := hb.2
    simp only [Consts.tableBlockCksumLen, Consts.tableBlockCompressLen] at hb2
    rw [himg] at hr hb2
    exact FT.open_filter_dmg cmp hc p t hwf _ hl hft hix hmx v fh n hm hd hz hb
      (FT.blockAt_altered_any pre w w' post _ _ hlen h4 hne (hin v fh n hm hd) (by omega) hr) wd file hcw

end

/-! ### several damaged data blocks

  `DamagedSet p t ds img'` (Lemmas/MultiDamage.lean): as `Damaged`, for a LIST `ds` of damaged data blocks —
  same length and footer, index / metaindex / filter buffers and every data block outside `ds` unchanged,
  every block of `ds` no longer verifies. `FT.intactBlocks t ds` = the blocks of `t` outside `ds`, in table
  order. `CoherentButSet`: nothing of a damaged block is cached (true of the empty cache, kept by every
  operation). -/

/-- one damaged block is the special case `ds = [d0]` -/
theorem C07_damagedSet_singleton (p : FilterPolicy) (t : TableImg) (d0 : DBlock) (img' : Bytes) :
    DamagedSet p t [d0] img' ↔ Damaged p t d0 img' :=
  ⟨FT.damaged_of_damagedSet, FT.damagedSet_of_damaged⟩

/-- no damaged block: the image itself -/
theorem C07_damagedSet_nil (p : FilterPolicy) (t : TableImg) : DamagedSet p t [] t.img :=
  FT.damagedSet_nil p t

/-- one more damaged block (generalises `C07_damaged_of_window`, iterate it for a list of disjoint windows,
    one per damaged block): replacing ≤ 4 consecutive bytes inside the physical block of a data block
    `d ∉ ds` (contents + type byte, or checksum field) of an image in which the blocks `ds` are already
    damaged, all other regions the reader uses lying outside the window -/
theorem C07_damagedSet_add_window (cmp : Cmp) (p : FilterPolicy) (t : TableImg) (hwf : t.WF cmp)
    (ds : List DBlock) (pre w w' post : Bytes) (hdm : DamagedSet p t ds (pre ++ w ++ post))
    (d : DBlock) (hd : d ∈ t.blocks) (hnew : d ∉ ds)
    (hlen : w.length = w'.length) (h4 : w.length ≤ 4) (hne : w ≠ w')
    (hin : FT.WindowIn d.handle pre.length w.length)
    (hfoot : pre.length + w.length ≤ t.img.length - 48)
    (hindex : FT.Outside pre.length (pre.length + w.length) t.indexHandle)
    (hmeta : FT.Outside pre.length (pre.length + w.length) t.metaHandle)
    (hfilter : ∀ v fh n, (Table.filterName p, v) ∈ t.metaix.kvs → BlockHandle.tryDecode v = some (fh, n) →
      FT.Outside pre.length (pre.length + w.length) fh)
    (hdata : ∀ d' ∈ t.blocks, d' ≠ d → FT.Outside pre.length (pre.length + w.length) d'.handle) :
    DamagedSet p t (d :: ds) (pre ++ w' ++ post) :=
  FT.damagedSet_add_window cmp p t hwf ds pre w w' post hdm d hd hnew hlen h4 hne hin hfoot hindex hmeta
    hfilter hdata

section
variable (cmp : Cmp) (hc : cmp.Lawful) (p : FilterPolicy) (t : TableImg) (hwf : t.WF cmp)
  (fv : Option Bytes) (ds : List DBlock) (img' : Bytes) (hdm : DamagedSet p t ds img')
include hc hwf hdm

/-- C07 (several damaged blocks, open is unaffected): `Table::new` succeeds with a handle `Opened` on the
    intact image -/
theorem C07_multi_open_unaffected (hfv : FilterView p t fv) (w : World) (file : Nat)
    (hcw : CleanWorld w file img') :
    ∃ w1 tb', Table.new ⟨cmp, p⟩ file img'.length w = (w1, .ok tb')
      ∧ Opened tb' t cmp p fv ∧ tb'.file = file
      ∧ tb'.cacheId = (w.cache.nextId + 1) % 2 ^ 64
      ∧ CleanWorld w1 file img' ∧ w1.files = w.files
      ∧ w1.cache.entries = w.cache.entries ∧ w1.cache.cap = w.cache.cap
      ∧ w1.cache.nextId = (w.cache.nextId + 1) % 2 ^ 64
      ∧ w1.events = w.events :=
  FT.open_intact cmp hc p t hwf fv img' hdm.toMetaIntact hfv w file hcw

/-- … the very handle that opening the intact file returns -/
theorem C07_multi_open_same_handle (hfv : FilterView p t fv) (w w0 : World) (file : Nat)
    (hcw : CleanWorld w file img') (hcw0 : CleanWorld w0 file t.img) (hcache : w0.cache = w.cache) :
    ∃ tb, (Table.new ⟨cmp, p⟩ file img'.length w).2 = .ok tb
      ∧ (Table.new ⟨cmp, p⟩ file t.img.length w0).2 = .ok tb := by
  obtain ⟨w1, tb', hnew', hop', hf', hid', _⟩ :=
    FT.open_intact cmp hc p t hwf fv img' hdm.toMetaIntact hfv w file hcw
  obtain ⟨w2, tb, hnew, hop, hf, hid, _⟩ := open_ok cmp hc p t hwf fv hfv w0 file hcw0
  have : tb' = tb := FT.opened_eq hop' hop (hf'.trans hf.symm) (by rw [hid', hid, hcache])
  subst this
  exact ⟨tb', by rw [hnew'], by rw [hnew]⟩

variable (tb : Table) (hop : Opened tb t cmp p fv)
include hop

/-- C07 (several damaged blocks, block reads): a damaged block is reported as `Corruption` and never
    cached; every other block is read exactly -/
theorem C07_multi_blocks (w : World) (hcw : CleanWorld w tb.file img')
    (hcoh : CoherentButSet w tb.cacheId t ds) (d : DBlock) (hd : d ∈ t.blocks) :
    ∃ w', CleanWorld w' tb.file img' ∧ CoherentButSet w' tb.cacheId t ds
      ∧ (d ∈ ds → tb.readBlock d.handle w = (w', .err .corruption)
                  ∧ w'.cache = (w.cache.get (tb.cacheId, d.handle.offset % 2 ^ 64)).1)
      ∧ (d ∉ ds → tb.readBlock d.handle w = (w', .ok d.blk.contents)) := by
  by_cases hin : d ∈ ds
  · obtain ⟨w', hb, h1, h2, h3⟩ := FT.readBlock_mdmg_bad cmp hc p t hwf fv ds img' hdm tb hop w hcw hcoh d hin
    exact ⟨w', h1, h2, fun _ => ⟨hb, h3⟩, fun h => absurd hin h⟩
  · obtain ⟨w', hb, h1, h2⟩ := FT.readBlock_mdmg_other cmp hc p t hwf fv ds img' hdm tb hop w hcw hcoh d hd hin
    exact ⟨w', h1, h2, fun h => absurd h hin, fun _ => hb⟩

/-- C07 (several damaged blocks, scans): from a before-first iterator the forward scan yields exactly the
    entries of the blocks outside `ds` (`FT.intactBlocks t ds`: `d ∈ intactBlocks ↔ d ∈ t.blocks ∧ d ∉ ds`,
    a sublist of `t.blocks`), in table order, every entry of each block that still verifies, then `none` -/
theorem C07_multi_scan (w : World) (hcw : CleanWorld w tb.file img')
    (hcoh : CoherentButSet w tb.cacheId t ds) (it : TableIter) (hs : SimT t tb it none) :
    ∃ w' it', it.run (List.replicate (((FT.intactBlocks t ds).flatMap (·.blk.kvs)).length + 1) IterOp.next) w
          = (w', .ok (it', ((FT.intactBlocks t ds).flatMap (·.blk.kvs)).map (fun e => IterOut.entry (some e))
                            ++ [IterOut.entry none]))
      ∧ (FT.intactBlocks t ds).Sublist t.blocks
      ∧ (∀ d, d ∈ FT.intactBlocks t ds ↔ d ∈ t.blocks ∧ d ∉ ds)
      ∧ CleanWorld w' tb.file img' ∧ CoherentButSet w' tb.cacheId t ds ∧ SimT t tb it' none := by
  obtain ⟨w', it', hrun, h1, h2, h3⟩ := FT.scan_mdmg cmp hc p t hwf fv ds img' hdm tb hop w hcw hcoh it hs
  exact ⟨w', it', hrun, FT.intactBlocks_sublist t ds, fun _ => FT.mem_intactBlocks, h1, h2, h3⟩

/-- C07 (several damaged blocks, iterator calls): every call on an iterator that simulates a position
    succeeds and leaves an iterator that simulates a position: only stored entries are ever shown -/
theorem C07_multi_call_keeps_sim (it : TableIter) (pos : Option (Nat × Nat)) (hs : SimT t tb it pos)
    (op : IterOp) (w : World) (hcw : CleanWorld w tb.file img') (hcoh : CoherentButSet w tb.cacheId t ds) :
    ∃ w' it' out pos', it.call op w = (w', .ok (it', out)) ∧ SimT t tb it' pos'
      ∧ CleanWorld w' tb.file img' ∧ CoherentButSet w' tb.cacheId t ds := by
  obtain ⟨w', it', out, pos', hrun, hsT, hinv⟩ :=
    FT.call_gen cmp hc p t hwf fv tb hop (FT.MDmgInv t ds img' tb)
      (FT.loadOK_mdmg cmp hc p t hwf fv ds img' hdm tb hop) it pos hs op w ⟨hcw, hcoh⟩
  exact ⟨w', it', out, pos', hrun, hsT, hinv.1, hinv.2⟩

/-- C07 (several damaged blocks, `seek`): `seek k` lands on a stored entry not below `k` or is invalid;
    the entries between the lower bound of `k` and the landing entry are exactly those of the blocks whose
    read failed during the call (all of them damaged blocks); nothing failed ⇒ exactly the lower bound -/
theorem C07_multi_seek (it : TableIter) (pos : Option (Nat × Nat)) (hs : SimT t tb it pos)
    (w : World) (hcw : CleanWorld w tb.file img') (hcoh : CoherentButSet w tb.cacheId t ds) (k : Bytes) :
    ∃ failed w' it' pos', it.seek k w = (w', .ok it') ∧ SimT t tb it' pos'
      ∧ FT.SeekOutcome cmp tb t k w failed w' pos'
      ∧ CleanWorld w' tb.file img' ∧ CoherentButSet w' tb.cacheId t ds
      ∧ (∀ e, Spec.entryAt t.entries (t.flatPos pos') = some e → e ∈ t.entries ∧ cmp.cmp e.1 k ≠ .lt)
      ∧ (∀ j, t.flatPos pos' = some j → ∃ j0, Spec.lowerBound cmp t.entries k = some j0
            ∧ j = j0 + (failed.flatMap (·.blk.kvs)).length
            ∧ (t.entries.drop j0).take ((failed.flatMap (·.blk.kvs)).length) = failed.flatMap (·.blk.kvs))
      ∧ (failed = [] → t.flatPos pos' = Spec.lowerBound cmp t.entries k) := by
  obtain ⟨ipos, hi⟩ := TI.simT_index hs
  obtain ⟨failed, w', it', pos', hrun, hsT, hinv, hout⟩ :=
    FT.seek_gen cmp hc p t hwf fv tb hop (FT.MDmgInv t ds img' tb)
      (FT.loadOK_mdmg cmp hc p t hwf fv ds img' hdm tb hop) it hs.table ipos hi w ⟨hcw, hcoh⟩ k
  refine ⟨failed, w', it', pos', hrun, hsT, hout, hinv.1, hinv.2, ?_,
    FT.seekOutcome_skipped cmp hc p t hwf fv tb hop hout, ?_⟩
  · intro e he
    refine ⟨?_, FT.seekOutcome_not_below cmp hc p t hwf fv tb hop hout e he⟩
    cases hfp : t.flatPos pos' with
    | none => rw [hfp] at he; cases he
    | some j => rw [hfp] at he; exact List.mem_of_getElem? he
  · intro hnil
    subst hnil
    exact FT.seekOutcome_exact cmp hc p t hwf fv tb hop hout

variable (hsound : ∀ fb, fv = some fb → FilterSound p t fb)
  (hfwf : ∀ fb, fv = some fb → FilterBlockReader.isWellFormed fb = true)
include hsound hfwf

/-- C07 (several damaged blocks, lookups): a key the index routes to a damaged block and the filter lets pass
    gets `Corruption`; every other key gets exactly the answer of the intact table -/
theorem C07_multi_get_right_or_error (w : World) (hcw : CleanWorld w tb.file img')
    (hcoh : CoherentButSet w tb.cacheId t ds) (k : Bytes) :
    ∃ w', CleanWorld w' tb.file img' ∧ CoherentButSet w' tb.cacheId t ds
      ∧ ((∃ d ∈ ds, Routed cmp t k d ∧ FT.FilterPasses tb p d k) → tb.get k w = (w', .err .corruption))
      ∧ (¬ (∃ d ∈ ds, Routed cmp t k d ∧ FT.FilterPasses tb p d k) →
            tb.get k w = (w', .ok (Spec.lookup cmp t.entries k))) :=
  FT.get_mdmg cmp hc p t hwf fv ds img' hdm tb hop hsound hfwf w hcw hcoh k

/-- C07 (several damaged blocks, never a wrong answer): every lookup returns the answer of the intact table
    or `Corruption` -/
theorem C07_multi_get_never_wrong (w : World) (hcw : CleanWorld w tb.file img')
    (hcoh : CoherentButSet w tb.cacheId t ds) (k : Bytes) :
    ∃ w', CleanWorld w' tb.file img' ∧ CoherentButSet w' tb.cacheId t ds
      ∧ (tb.get k w = (w', .ok (Spec.lookup cmp t.entries k)) ∨ tb.get k w = (w', .err .corruption)) := by
  obtain ⟨w', h1, h2, h3, h4⟩ := FT.get_mdmg cmp hc p t hwf fv ds img' hdm tb hop hsound hfwf w hcw hcoh k
  refine ⟨w', h1, h2, ?_⟩
  by_cases h : ∃ d ∈ ds, Routed cmp t k d ∧ FT.FilterPasses tb p d k
  · exact .inr (h3 h)
  · exact .inl (h4 h)

/-- C07 (several damaged blocks, stored keys): a key stored in a damaged block gets `Corruption`; a key
    stored in any other block is found with its value -/
theorem C07_multi_stored_keys (w : World) (hcw : CleanWorld w tb.file img')
    (hcoh : CoherentButSet w tb.cacheId t ds) (d : DBlock) (hd : d ∈ t.blocks) (k : Bytes) (hk : k ∈ d.keys) :
    ∃ w', (d ∈ ds → tb.get k w = (w', .err .corruption))
      ∧ (d ∉ ds → tb.get k w = (w', .ok (Spec.lookup cmp t.entries k))) := by
  obtain ⟨w', _, _, h3, h4⟩ := FT.get_mdmg cmp hc p t hwf fv ds img' hdm tb hop hsound hfwf w hcw hcoh k
  have hr := FT.routed_of_key cmp hc t hwf d hd k hk
  refine ⟨w', ?_, ?_⟩
  · intro hin
    exact h3 ⟨d, hin, hr, FT.passes_of_key hop hsound d hd k hk⟩
  · intro hnin
    apply h4
    intro ⟨d', hin', ⟨bi, hb1, hb2⟩, _⟩
    obtain ⟨bi', hb1', hb2'⟩ := hr
    rw [hb1] at hb1'
    cases hb1'
    rw [hb2] at hb2'
    cases hb2'
    exact hnin hin'

end

/-! ### non-vacuity (tests, labelled as such)

  The concrete table of Lemmas/FaultyWitness.lean (three entries, three data blocks, `FT.witnessImg`) with
  ONE byte of its second data block altered (`FT.witnessImgDamaged`: the value byte 20 at offset 22 becomes
  21). `Damaged` is obtained from `C07_damaged_of_window`, its side conditions discharged by computation. -/

/-- C07 (table level) is not vacuous: all hypotheses of `C07_scan` / `C07_get_never_wrong` /
    `C07_multi_scan` hold simultaneously on a concrete damaged table -/
theorem C07_nonvacuous :
    ∃ (t : TableImg) (fv : Option Bytes) (d0 d1 d2 : DBlock) (img' : Bytes) (tb : Table) (it : TableIter)
      (w : World),
      defaultCmp.Lawful ∧ t.WF defaultCmp ∧ t.blocks = [d0, d1, d2] ∧ img' ≠ t.img
        ∧ Damaged noFilterPolicy t d1 img' ∧ DamagedSet noFilterPolicy t [d1] img'
        ∧ FilterView noFilterPolicy t fv
        ∧ (∀ fb, fv = some fb → FilterSound noFilterPolicy t fb)
        ∧ (∀ fb, fv = some fb → FilterBlockReader.isWellFormed fb = true)
        ∧ Table.new ⟨defaultCmp, noFilterPolicy⟩ 0 img'.length (FT.witnessWorld img') = (w, .ok tb)
        ∧ Opened tb t defaultCmp noFilterPolicy fv
        ∧ CleanWorld w tb.file img' ∧ CoherentBut w tb.cacheId t d1 ∧ CoherentButSet w tb.cacheId t [d1]
        ∧ TableIter.new tb w = (w, .ok it) ∧ SimT t tb it none
        ∧ d0.blk.kvs = [([1], [10])] ∧ d1.blk.kvs = [([2], [20])] ∧ d2.blk.kvs = [([3, 5], [30])]
        ∧ t.entries = [([1], [10]), ([2], [20]), ([3, 5], [30])] := by
  obtain ⟨t, fv, tb0, it0, w0, h⟩ := FT.witness_exists
  obtain ⟨d0, d1, d2, hbl, hdm, k0, k1, k2⟩ := FT.witness_damaged h
  have hcw : CleanWorld (FT.witnessWorld FT.witnessImgDamaged) 0 FT.witnessImgDamaged := ⟨rfl, rfl⟩
  obtain ⟨w1, tb, hnew, hop, hfile, _, hcw1, _, hent, _⟩ :=
    C07_open_unaffected defaultCmp defaultCmp_lawful noFilterPolicy t h.wf fv d1 _ hdm h.fview _ 0 hcw
  obtain ⟨it, hit, hs⟩ := iter_new_ok defaultCmp defaultCmp_lawful noFilterPolicy t h.wf fv tb hop w1
  have hne : FT.witnessImgDamaged ≠ t.img := by
    rw [h.img]; decide +kernel
  refine ⟨t, fv, d0, d1, d2, FT.witnessImgDamaged, tb, it, w1, defaultCmp_lawful, h.wf, hbl, hne, hdm,
    FT.damagedSet_of_damaged hdm, h.fview, h.sound, h.fwf, hnew, hop, hfile ▸ hcw1, ?_, ?_, hit, hs,
    k0, k1, k2, h.entries⟩
  · intro off c hm
    rw [hent] at hm; cases hm
  · intro off c hm
    rw [hent] at hm; cases hm

/-- C07 on that instance, by INSTANTIATING the general theorems (`C07_scan`, `C07_damaged_keys_error`,
    `C07_other_stored_keys_found`): on the file with the altered byte, open succeeds, the forward scan of a
    fresh iterator returns exactly the entries of the two intact blocks and then `none`, the lookup of the
    damaged block's key `[2]` is `Corruption`, the lookups of `[1]` and `[3,5]` are exact -/
theorem C07_instance :
    ∃ (tb : Table) (it : TableIter) (w : World),
      Table.new ⟨defaultCmp, noFilterPolicy⟩ 0 FT.witnessImgDamaged.length
          (FT.witnessWorld FT.witnessImgDamaged) = (w, .ok tb)
        ∧ TableIter.new tb w = (w, .ok it)
        ∧ (∃ w' it', it.run (List.replicate 3 IterOp.next) w
            = (w', .ok (it', [.entry (some ([1], [10])), .entry (some ([3, 5], [30])), .entry none])))
        ∧ (∃ w', tb.get [2] w = (w', .err .corruption))
        ∧ (∃ w', tb.get [1] w = (w', .ok (some [10])))
        ∧ (∃ w', tb.get [3, 5] w = (w', .ok (some [30]))) := by
  obtain ⟨t, fv, tb0, it0, w0, h⟩ := FT.witness_exists
  obtain ⟨d0, d1, d2, hbl, hdm, k0, k1, k2⟩ := FT.witness_damaged h
  have hcw : CleanWorld (FT.witnessWorld FT.witnessImgDamaged) 0 FT.witnessImgDamaged := ⟨rfl, rfl⟩
  obtain ⟨w1, tb, hnew, hop, hfile, _, hcw1, _, hent1, _⟩ :=
    C07_open_unaffected defaultCmp defaultCmp_lawful noFilterPolicy t h.wf fv d1 _ hdm h.fview _ 0 hcw
  obtain ⟨it, hit, hs⟩ := iter_new_ok defaultCmp defaultCmp_lawful noFilterPolicy t h.wf fv tb hop w1
  have hcw' : CleanWorld w1 tb.file FT.witnessImgDamaged := hfile ▸ hcw1
  have hcoh : CoherentBut w1 tb.cacheId t d1 := by
    intro off c hm
    rw [hent1] at hm; cases hm
  have hm0 : d0 ∈ t.blocks := by rw [hbl]; simp
  have hm2 : d2 ∈ t.blocks := by rw [hbl]; simp
  have hkeys : ∀ d : DBlock, d.keys = d.blk.kvs.map (·.1) := fun d => (TI.kvs_keys d.blk).symm
  refine ⟨tb, it, w1, hnew, hit, ?_, ?_, ?_, ?_⟩
  · obtain ⟨w', it', hrun, _⟩ :=
      C07_scan defaultCmp defaultCmp_lawful noFilterPolicy t h.wf fv d1 _ hdm tb hop [d0] [d2]
        (by rw [hbl]; rfl) w1 hcw' hcoh it hs
    rw [h.entries, k1] at hrun
    simp only [List.cons_append, List.nil_append, List.flatMap_cons, List.flatMap_nil, k0, k2,
      List.append_nil, List.map_cons, List.map_nil] at hrun
    exact ⟨w', it', hrun⟩
  · exact C07_damaged_keys_error defaultCmp defaultCmp_lawful noFilterPolicy t h.wf fv d1 _ hdm tb hop
      h.sound h.fwf w1 hcw' hcoh [2] (by rw [hkeys, k1]; simp)
  · obtain ⟨w', hg⟩ := C07_other_stored_keys_found defaultCmp defaultCmp_lawful noFilterPolicy t h.wf fv d1 _
      hdm tb hop h.sound h.fwf w1 hcw' hcoh d0 hm0
      (by intro e; rw [e, k1] at k0; cases k0) [1] (by rw [hkeys, k0]; simp)
    rw [h.entries] at hg
    exact ⟨w', hg⟩
  · obtain ⟨w', hg⟩ := C07_other_stored_keys_found defaultCmp defaultCmp_lawful noFilterPolicy t h.wf fv d1 _
      hdm tb hop h.sound h.fwf w1 hcw' hcoh d2 hm2
      (by intro e; rw [e, k1] at k2; cases k2) [3, 5] (by rw [hkeys, k2]; simp)
    rw [h.entries] at hg
    exact ⟨w', hg⟩

/-- … and the same conclusions obtained by evaluating the model on the damaged bytes (`decide +kernel`),
    a cross-check independent of the theorems -/
theorem C07_instance_evaluated :
    FT.withOpened FT.witnessImgDamaged (fun tb it w =>
      FT.runB it (List.replicate 3 IterOp.next) w
        [.entry (some ([1], [10])), .entry (some ([3, 5], [30])), .entry none]
      && FT.getB tb [2] w (.err .corruption) && FT.getB tb [1] w (.ok (some [10]))
      && FT.getB tb [3, 5] w (.ok (some [30]))) = true :=
  FT.witness_damaged_eval

end Sst

#print axioms Sst.C07_block_altered
#print axioms Sst.C07_block_altered_cksum
#print axioms Sst.C07_damaged_of_window
#print axioms Sst.C07_open_unaffected
#print axioms Sst.C07_open_same_handle
#print axioms Sst.C07_damaged_block_reported
#print axioms Sst.C07_other_blocks_intact
#print axioms Sst.C07_get_right_or_error
#print axioms Sst.C07_get_never_wrong
#print axioms Sst.C07_damaged_keys_error
#print axioms Sst.C07_other_keys_exact
#print axioms Sst.C07_other_stored_keys_found
#print axioms Sst.C07_open_get
#print axioms Sst.C07_scan
#print axioms Sst.C07_scan_split
#print axioms Sst.C07_open_scan
#print axioms Sst.C07_block_altered_any
#print axioms Sst.C07_index_unreadable_detected
#print axioms Sst.C07_metaindex_unreadable_detected
#print axioms Sst.C07_filter_unreadable_detected
#print axioms Sst.C07_index_damage_detected
#print axioms Sst.C07_metaindex_damage_detected
#print axioms Sst.C07_filter_damage_detected
#print axioms Sst.C07_damagedSet_singleton
#print axioms Sst.C07_damagedSet_nil
#print axioms Sst.C07_damagedSet_add_window
#print axioms Sst.C07_multi_open_unaffected
#print axioms Sst.C07_multi_open_same_handle
#print axioms Sst.C07_multi_blocks
#print axioms Sst.C07_multi_scan
#print axioms Sst.C07_multi_call_keeps_sim
#print axioms Sst.C07_multi_seek
#print axioms Sst.C07_multi_get_right_or_error
#print axioms Sst.C07_multi_get_never_wrong
#print axioms Sst.C07_multi_stored_keys
#print axioms Sst.C07_nonvacuous
#print axioms Sst.C07_instance
#print axioms Sst.C07_instance_evaluated
