import SstModel.Lemmas.Sink
/-
  C13 — The builder delivers the complete table image to any conforming Write sink.

  A sink is an arbitrary finite schedule of responses (`accept n` = `Ok(min n len)`, `interrupted`,
  `error`), one consumed per `write`/`flush` call; after the schedule it accepts everything.
  `TableBuilder.build opt {sched} es` = add all entries, then finish.
-/
namespace Sst

/-- C13: for EVERY sink schedule — partial acceptance on any call, zero-length acceptance, transient
    interruptions, hard errors anywhere — whenever finishing reports success with size n (n a u64),
    the sink has received, in order and exactly once, the same n bytes a perfect sink receives
    (and the perfect-sink build reports the same n), and no hard error response was consumed. -/
theorem C13_sink_any_schedule (opt : WOpts) (sched : List SinkResp) (es : List (Bytes × Bytes))
    (t : TableBuilder) (n : Nat) (hn : n < 2 ^ 64)
    (h : TableBuilder.build opt { sched := sched } es = (t, .ok n)) :
    ∃ tp, TableBuilder.build opt {} es = (tp, .ok n)
      ∧ t.sink.received = tp.sink.received ∧ n = t.sink.received.length
      ∧ (∃ consumed, sched = consumed ++ t.sink.sched ∧ SinkResp.error ∉ consumed) :=
  C13_sink opt sched es t n hn h

/-- contrapositive reading of the last clause: if the sink failed hard on some call the builder made
    (an `error` response was consumed), the build does not report success — the error surfaces at
    that call or a later one, never as `Ok` -/
theorem C13_hard_error_not_ok (opt : WOpts) (sched : List SinkResp) (es : List (Bytes × Bytes))
    (t : TableBuilder) (r : Res Nat) (h : TableBuilder.build opt { sched := sched } es = (t, r))
    (consumed : List SinkResp) (hc : sched = consumed ++ t.sink.sched) (herr : SinkResp.error ∈ consumed) :
    ∀ n, r ≠ .ok n := by
  intro n hr
  subst hr
  obtain ⟨_, _, _, _, c', hc', hne⟩ := C13_sink_core opt sched es t n h
  have : consumed = c' := List.append_cancel_right (hc.symm.trans hc')
  exact hne (this ▸ herr)

/-- write_all itself: complete delivery or an error, never a silent short write -/
theorem C13_write_all (s s' : Sink) (buf : Bytes) (fuel : Nat) (h : s.writeAll buf fuel = (s', .ok ())) :
    s'.received = s.received ++ buf := writeAll_ok s buf fuel s' h

-- non-vacuity (tests): a sink that takes one byte per call, with an interruption, still gets everything
example : (Sink.writeAll { sched := [.accept 1, .interrupted, .accept 1] } [1, 2, 3] 10).1.received = [1, 2, 3] := by
  decide
example : (Sink.writeAll { sched := [.accept 1, .error] } [1, 2, 3] 10).2 = .err .ioError := by rfl

end Sst
