import SstModel.Lemmas.BuiltRead
import SstModel.Lemmas.BuildLayoutSnappy
/-
  C01 — Write-then-scan returns exactly the entries that were added.

  "For every strictly increasing sequence of key/value byte strings (including the empty key, empty
  values, arbitrary bytes, entries larger than a block) and every writer and reader configuration, a
  table that was built, finished and opened yields on a forward scan exactly that sequence, in order,
  with nothing lost, duplicated or altered. The entry count reported by the builder equals the number
  of additions and the size returned on finish equals the number of bytes handed to the sink."

  Quantification of the theorem:
  * writer configuration: every `opt : WOpts` with `WOptsOK opt` — any lawful comparator, ANY
    `blockSize : Nat` (0 included), any restart interval ≥ 1, compression none / snappy (the compressor
    is a parameter that the modelled decoder inverts), any filter policy without false negatives on
    filters shorter than 4 GiB — in particular the crate's default, bloom (examples below);
  * reader configuration: the writer's comparator, ANY filter policy compatible with the writer's
    (`ReaderPolicyOK`: foreign name, or same name and same may-match function), any cache capacity
    (the world `w` is arbitrary apart from: the file holds the bytes the sink received, reads do not
    fail, the cache is empty);
  * sink: ANY response schedule (partial writes, interruptions, …) on which the build reports success;
  * inputs: any entry list `es`; a successful build implies that it is strictly sorted
    (`TableBuilder.addAll_ok_sorted`), and conversely on every strictly sorted list the perfect-sink
    build succeeds (`C01_build_succeeds`).
  Side conditions forced by the model (see BuildLayout.lean): files shorter than 2^32 bytes (`hn`),
  and when compressing the a-priori bound `sizeBound` (`hsz`).
-/
namespace Sst

/-- C01: count, size and forward scan of a built table, for every sink schedule -/
theorem C01_roundtrip (opt : WOpts) (hok : WOptsOK opt) (rp : FilterPolicy)
    (hrp : ReaderPolicyOK opt.filter rp)
    (sched : List SinkResp) (es : List (Bytes × Bytes)) (t0 : TableBuilder) (n : Nat)
    (hb : TableBuilder.build opt { sched := sched } es = (t0, .ok n)) (hn : n < 2 ^ 32)
    (hsz : opt.compression = 1 → sizeBound opt es < 2 ^ 32)
    (w : World) (file : Nat) (hcw : CleanWorld w file t0.sink.received) (hempty : w.cache.entries = []) :
    -- the size returned by `finish` is the number of bytes handed to the sink
    n = t0.sink.received.length
    -- the entry count of the builder is the number of additions
    ∧ t0.numEntries = es.length
    -- opening succeeds, and `|es| + 1` calls of `next` on a new iterator return the entries, then `None`
    ∧ ∃ w1 tb it, Table.new ⟨opt.cmp, rp⟩ file n w = (w1, .ok tb) ∧ TableIter.new tb w1 = (w1, .ok it)
      ∧ ∃ w2 it2, it.run (List.replicate (es.length + 1) Spec.IterOp.next) w1
            = (w2, .ok (it2, es.map (fun e => Spec.IterOut.entry (some e)) ++ [Spec.IterOut.entry none])) := by
  obtain ⟨h1, h2, w1, tb, it, hnew, hit, hscan, _⟩ :=
    built_table_reads_back opt hok rp hrp sched es t0 n hb hn hsz w file hcw hempty
  exact ⟨h1, h2, w1, tb, it, hnew, hit, hscan⟩

/-- C01, existence half: on every strictly sorted input the build (perfect sink) does succeed, as long
    as fewer than 2^43 bytes are produced (beyond that the 32-bit filter index of `start_block` wraps
    and its assertion can fail) -/
theorem C01_build_succeeds (opt : WOpts) (hok : WOptsOK opt) (es : List (Bytes × Bytes))
    (hs : Spec.StrictSorted opt.cmp es) :
    ∃ tp r, TableBuilder.build opt {} es = (tp, r) ∧ (tp.sink.received.length < 2 ^ 43 → ∃ n, r = .ok n) :=
  build_succeeds opt hok es hs

-- non-vacuity: the uncompressed bytewise configuration with no filter, ANY block size (0 included),
-- read with the same policy, satisfies the hypotheses on the configuration
example (blockSize ri : Nat) (hri : 1 ≤ ri) (compress : Bytes → Bytes) :
    WOptsOK { cmp := defaultCmp, blockSize, restartInterval := ri, compression := 0,
              filter := noFilterPolicy, compress } ∧ ReaderPolicyOK noFilterPolicy noFilterPolicy :=
  ⟨wOptsOK_default blockSize ri hri noFilterPolicy (fun _ _ _ _ => rfl) compress, readerPolicyOK_refl _⟩

-- … and so does the snappy configuration (literal-only compressor), and the reversed comparator
example (blockSize ri : Nat) (hri : 1 ≤ ri) :
    WOptsOK { cmp := defaultCmp, blockSize, restartInterval := ri, compression := 1,
              filter := noFilterPolicy, compress := BL.litCompress } :=
  BL.wOptsOK_snappy blockSize ri hri noFilterPolicy (fun _ _ _ _ => rfl)

example (blockSize ri : Nat) (hri : 1 ≤ ri) (compress : Bytes → Bytes) :
    WOptsOK { cmp := reverseCmp, blockSize, restartInterval := ri, compression := 0,
              filter := noFilterPolicy, compress } :=
  wOptsOK_reverse blockSize ri hri noFilterPolicy (fun _ _ _ _ => rfl) compress

-- THE CRATE'S DEFAULT CONFIGURATION: bytewise comparator, block size 4096, restart interval 16, no
-- compression, bloom filter with 10 bits per key (since fix D19 the bloom policy has no false negatives
-- on any filter that fits a table file, `bloom_policy_sound`), read with the same policy
example (compress : Bytes → Bytes) :
    WOptsOK { cmp := defaultCmp, blockSize := Consts.defaultBlockSize,
              restartInterval := Consts.defaultRestartInterval, compression := Consts.compressionNone,
              filter := Bloom.policy Consts.defaultBitsPerKey, compress }
      ∧ ReaderPolicyOK (Bloom.policy Consts.defaultBitsPerKey) (Bloom.policy Consts.defaultBitsPerKey) :=
  ⟨wOptsOK_bloom _ _ (by decide) _ compress, readerPolicyOK_refl _⟩

-- bloom with 10 bits per key under any block size / restart interval, with snappy, with the reversed
-- comparator
example (blockSize ri : Nat) (hri : 1 ≤ ri) (compress : Bytes → Bytes) :
    WOptsOK { cmp := defaultCmp, blockSize, restartInterval := ri, compression := 0,
              filter := Bloom.policy 10, compress } :=
  wOptsOK_bloom blockSize ri hri 10 compress

example (blockSize ri : Nat) (hri : 1 ≤ ri) :
    WOptsOK { cmp := defaultCmp, blockSize, restartInterval := ri, compression := 1,
              filter := Bloom.policy 10, compress := BL.litCompress } :=
  BL.wOptsOK_snappy_bloom blockSize ri hri 10

example (blockSize ri : Nat) (hri : 1 ≤ ri) (compress : Bytes → Bytes) :
    WOptsOK { cmp := reverseCmp, blockSize, restartInterval := ri, compression := 0,
              filter := Bloom.policy 10, compress } :=
  wOptsOK_reverse_bloom blockSize ri hri 10 compress

-- a bloom filter written with one bits_per_key is read with any other
example (b b' : Nat) : ReaderPolicyOK (Bloom.policy b) (Bloom.policy b') := bloom_readerPolicyOK b b'

end Sst

#print axioms Sst.C01_roundtrip
#print axioms Sst.C01_build_succeeds
