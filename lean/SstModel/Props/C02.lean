import SstModel.Lemmas.BuiltRead
/-
  C02 — Point lookup finds every stored key and nothing else.

  "For every table and every byte string k, a point lookup returns the stored value when k is one of
  the table's keys and reports absence otherwise; it never reports a stored key as absent and never
  returns a value belonging to a different key. This holds wherever block, restart, filter and
  index-separator boundaries fall, for every configuration, and for tables whose index separators
  equal a block's last key."

  The theorem is stated for the table built from ANY entry list `es` by ANY writer configuration with
  `WOptsOK` on ANY sink schedule (see C01.lean for the quantification and the two size side
  conditions), opened with ANY compatible reader policy (`ReaderPolicyOK`: a policy with a foreign
  on-disk name, or one with the writer's name and may-match function — e.g. bloom with any other
  bits_per_key) and for EVERY byte string `k`: the answer is `Spec.lookup opt.cmp es k`, the value of
  the first entry of `es` whose key compares equal to `k` (`es` is strictly sorted, so the only one),
  `none` if there is none.  (Tables whose index keys equal a block's last key are covered on the reader
  side by C06, which holds for every well-formed image.)
-/
namespace Sst

/-- C02: `get k` on the built table = lookup of `k` in the input list, for every key `k` -/
theorem C02_get (opt : WOpts) (hok : WOptsOK opt) (rp : FilterPolicy)
    (hrp : ReaderPolicyOK opt.filter rp)
    (sched : List SinkResp) (es : List (Bytes × Bytes)) (t0 : TableBuilder) (n : Nat)
    (hb : TableBuilder.build opt { sched := sched } es = (t0, .ok n)) (hn : n < 2 ^ 32)
    (hsz : opt.compression = 1 → sizeBound opt es < 2 ^ 32)
    (w : World) (file : Nat) (hcw : CleanWorld w file t0.sink.received) (hempty : w.cache.entries = []) :
    ∃ w1 tb, Table.new ⟨opt.cmp, rp⟩ file n w = (w1, .ok tb)
      ∧ ∀ k, ∃ w2, tb.get k w1 = (w2, .ok (Spec.lookup opt.cmp es k)) := by
  obtain ⟨_, _, w1, tb, _, hnew, _, _, hget, _⟩ :=
    built_table_reads_back opt hok rp hrp sched es t0 n hb hn hsz w file hcw hempty
  exact ⟨w1, tb, hnew, hget⟩

/-- C02, "a filter written by another policy must be ignored, not consulted": a reader policy whose
    on-disk name differs from the writer's obtains a handle WITHOUT filter reader (and, by `C02_get`
    with `ReaderPolicyOK`'s first alternative, exact lookups) -/
theorem C02_foreign_filter_ignored (opt : WOpts) (hok : WOptsOK opt) (rp : FilterPolicy)
    (hne : Table.filterName rp ≠ Table.filterName opt.filter)
    (sched : List SinkResp) (es : List (Bytes × Bytes)) (t0 : TableBuilder) (n : Nat)
    (hb : TableBuilder.build opt { sched := sched } es = (t0, .ok n)) (hn : n < 2 ^ 32)
    (hsz : opt.compression = 1 → sizeBound opt es < 2 ^ 32)
    (w : World) (file : Nat) (hcw : CleanWorld w file t0.sink.received) (hempty : w.cache.entries = []) :
    ∃ w1 tb, Table.new ⟨opt.cmp, rp⟩ file n w = (w1, .ok tb) ∧ tb.filters = none :=
  built_foreign_filter opt hok rp hne sched es t0 n hb hn hsz w file hcw hempty

-- what the right-hand side means: a stored key yields its value, a key between stored keys nothing
example : Spec.lookup defaultCmp [([1], [10]), ([3], [30])] [3] = some [30] := by decide
example : Spec.lookup defaultCmp [([1], [10]), ([3], [30])] [2] = none := by decide
example : Spec.lookup defaultCmp [([], [7]), ([0], [])] [] = some [7] := by decide
-- writer configurations covered: e.g. the crate's default one (bloom, 10 bits per key) …
example (blockSize ri : Nat) (hri : 1 ≤ ri) (compress : Bytes → Bytes) :
    WOptsOK { cmp := defaultCmp, blockSize, restartInterval := ri, compression := 0,
              filter := Bloom.policy 10, compress } :=
  wOptsOK_bloom blockSize ri hri 10 compress
-- … so `C02_get` applies to it as is: lookups through the bloom filter are exact
example (blockSize ri : Nat) (hri : 1 ≤ ri) (compress : Bytes → Bytes)
    (sched : List SinkResp) (es : List (Bytes × Bytes)) (t0 : TableBuilder) (n : Nat)
    (hb : TableBuilder.build { cmp := defaultCmp, blockSize, restartInterval := ri, compression := 0,
                               filter := Bloom.policy Consts.defaultBitsPerKey, compress }
            { sched := sched } es = (t0, .ok n))
    (hn : n < 2 ^ 32)
    (w : World) (file : Nat) (hcw : CleanWorld w file t0.sink.received) (hempty : w.cache.entries = []) :
    ∃ w1 tb, Table.new ⟨defaultCmp, Bloom.policy Consts.defaultBitsPerKey⟩ file n w = (w1, .ok tb)
      ∧ ∀ k, ∃ w2, tb.get k w1 = (w2, .ok (Spec.lookup defaultCmp es k)) :=
  C02_get _ (wOptsOK_bloom blockSize ri hri _ compress) _ (readerPolicyOK_refl _) sched es t0 n hb hn
    (fun h => by cases h) w file hcw hempty
-- reader policies covered: the writer's own, any foreign name, bloom with other parameters
example (p : FilterPolicy) : ReaderPolicyOK p p := readerPolicyOK_refl p
example (wp rp : FilterPolicy) (h : Table.filterName rp ≠ Table.filterName wp) : ReaderPolicyOK wp rp := .inl h
example (b b' : Nat) : ReaderPolicyOK (Bloom.policy b) (Bloom.policy b') := bloom_readerPolicyOK b b'

end Sst

#print axioms Sst.C02_get
#print axioms Sst.C02_foreign_filter_ignored
