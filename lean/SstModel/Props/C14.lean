import SstModel.Lemmas.Faulty
import SstModel.Props.ReaderWF
/-
  C14 — Failures of the random-access source do not stick.

  For EVERY pattern of failures of the source (`World.sched`: any `read_at` call may return an error or
  deliver only a prefix of the bytes, the rest of the buffer staying zero), on every well-formed table:
  lookups return the correct answer or an error, never a wrong answer; a block read that failed leaves the
  cache exactly as the lookup left it (nothing read during a failure is cached); iterator calls keep
  succeeding (C08) and keep the cache coherent; and after ANY interleaving of lookups and iterator calls
  (on any number of iterators) under ANY schedules, as soon as the source works again every operation
  returns the fully correct result.

  Standing hypotheses: a lawful comparator, an image `t` with `t.WF cmp`, a handle `tb` opened on it
  (`Opened`), a sound, validated filter (as in `get_ok`). About the world ONLY: the file holds the image
  (`FileOK`) and the cache is coherent for this table (`Coherent`) and validated (`CacheValid`, C08);
  NOTHING about the fault schedule.

  `NoShortCollision t` (decidable, evaluated by the harness on the images it runs): a zero-padded short
  read of a data block does not pass CRC verification + structure validation with other contents. It
  needs no assumption when the short read misses at most the last 4 bytes (`C14_short_tail`); in general
  it excludes a CRC-32C collision between a block and its zero-filled truncation.
-/
namespace Sst
open Spec

section
variable (cmp : Cmp) (hc : cmp.Lawful) (p : FilterPolicy) (t : TableImg) (hwf : t.WF cmp)
  (fv : Option Bytes) (tb : Table) (hop : Opened tb t cmp p fv)
include hc hwf hop

/-- C14 (block reads): through the cache, under any schedule: the true contents or an error; the cache
    stays coherent (for this and every other table sharing it); on an error the cache is exactly what
    the cache lookup left — nothing read during the failure is cached -/
theorem C14_read_block (hns : NoShortCollision t) (w : World) (hf : FileOK w tb.file t.img)
    (hcoh : Coherent w tb.cacheId t) (d : DBlock) (hd : d ∈ t.blocks) :
    let r := tb.readBlock d.handle w
    FileOK r.1 tb.file t.img ∧ Coherent r.1 tb.cacheId t
      ∧ (r.2 = .ok d.blk.contents ∨ ∃ c, r.2 = .err c)
      ∧ (∀ id' t', id' ≠ tb.cacheId → Coherent w id' t' → Coherent r.1 id' t')
      ∧ ((∃ c, r.2 = .err c) → r.1.cache = (w.cache.get (tb.cacheId, d.handle.offset % 2 ^ 64)).1) :=
  readBlock_faulty cmp hc p t hwf fv tb hop hns w hf hcoh d hd

/-- C14 (lookups): right or error, never a wrong answer, under any schedule -/
theorem C14_get_right_or_error (hsound : ∀ fb, fv = some fb → FilterSound p t fb)
    (hfwf : ∀ fb, fv = some fb → FilterBlockReader.isWellFormed fb = true) (hns : NoShortCollision t)
    (w : World) (hf : FileOK w tb.file t.img) (hcoh : Coherent w tb.cacheId t) (k : Bytes) :
    let r := tb.get k w
    FileOK r.1 tb.file t.img ∧ Coherent r.1 tb.cacheId t
      ∧ (r.2 = .ok (Spec.lookup cmp t.entries k) ∨ ∃ c, r.2 = .err c) :=
  get_faulty cmp hc p t hwf fv tb hop hsound hfwf hns w hf hcoh k

/-- C14 (iterator calls): under any schedule every call succeeds, keeps the iterator invariant, the file,
    the coherence and the validity of the cache -/
theorem C14_iter_call (hns : NoShortCollision t) (it : TableIter) (hit : IterOK it) (htab : it.table = tb)
    (op : IterOp) (w : World) (hf : FileOK w tb.file t.img) (hcoh : Coherent w tb.cacheId t)
    (hcv : CacheValid w) :
    ∃ it' out, (it.call op w).2 = .ok (it', out) ∧ IterOK it' ∧ it'.table = tb
      ∧ FileOK (it.call op w).1 tb.file t.img ∧ Coherent (it.call op w).1 tb.cacheId t
      ∧ CacheValid (it.call op w).1 :=
  iter_call_faulty' cmp hc p t hwf fv tb hop hns it hit htab op w hf hcoh hcv

variable (hsound : ∀ fb, fv = some fb → FilterSound p t fb)
  (hfwf : ∀ fb, fv = some fb → FilterBlockReader.isWellFormed fb = true) (hns : NoShortCollision t)
include hsound hfwf hns

/-- C14 (whole sessions): in ANY session (`FT.Ev`: lookups, new iterators, calls on any iterator of the
    family, the environment re-arming the fault schedule at will) started from a world holding the image,
    every lookup returned the right answer or an error, no iterator call failed, every iterator still
    satisfies its invariant, and the world invariant holds at the end -/
theorem C14_session (its0 : List TableIter) (hits : ∀ it ∈ its0, IterOK it ∧ it.table = tb)
    (evs : List FT.Ev) (w0 : World) (hf : FileOK w0 tb.file t.img) (hcoh : Coherent w0 tb.cacheId t)
    (hcv : CacheValid w0) :
    let s1 := FT.run tb evs { w := w0, its := its0 }
    (∀ e ∈ s1.gets, e.2 = .ok (Spec.lookup cmp t.entries e.1) ∨ ∃ c, e.2 = .err c)
      ∧ s1.failedCalls = 0
      ∧ (∀ it ∈ s1.its, IterOK it ∧ it.table = tb)
      ∧ FileOK s1.w tb.file t.img ∧ Coherent s1.w tb.cacheId t ∧ CacheValid s1.w := by
  have h := FT.run_ok cmp hc p t hwf fv tb hop hsound hfwf hns evs { w := w0, its := its0 }
    ⟨⟨hf, hcoh, hcv⟩, hits, (by intro e he; cases he), rfl⟩
  exact ⟨h.gets, h.calls, h.its, h.inv.1, h.inv.2.1, h.inv.2.2⟩

/-- C14 (nothing sticks): after ANY session under ANY fault schedules, as soon as the source works again
    (`sched = []`) the world is `WorldOK`: every lookup is exact and a fresh iterator scans exactly the
    entries -/
theorem C14_recovers (its0 : List TableIter) (hits : ∀ it ∈ its0, IterOK it ∧ it.table = tb)
    (evs : List FT.Ev) (w0 : World) (hf : FileOK w0 tb.file t.img) (hcoh : Coherent w0 tb.cacheId t)
    (hcv : CacheValid w0) :
    let w1 := (FT.run tb evs { w := w0, its := its0 }).w
    ∀ w2, w2 = { w1 with sched := [] } →
      WorldOK w2 tb t
      ∧ (∀ k, ∃ w3, tb.get k w2 = (w3, .ok (Spec.lookup cmp t.entries k)))
      ∧ (∃ it, TableIter.new tb w2 = (w2, .ok it)
          ∧ ∃ w3 it3, it.run (List.replicate (t.entries.length + 1) IterOp.next) w2
              = (w3, .ok (it3, t.entries.map (fun e => IterOut.entry (some e)) ++ [IterOut.entry none]))) := by
  intro w1 w2 hw2
  have h := FT.run_ok cmp hc p t hwf fv tb hop hsound hfwf hns evs { w := w0, its := its0 }
    ⟨⟨hf, hcoh, hcv⟩, hits, (by intro e he; cases he), rfl⟩
  have hok : WorldOK w2 tb t := by
    subst hw2
    exact ⟨⟨h.inv.1, rfl⟩, h.inv.2.1⟩
  refine ⟨hok, ?_, ?_⟩
  · intro k
    obtain ⟨w3, hget, _⟩ := get_ok cmp hc p t hwf fv tb hop hsound hfwf w2 hok k
    exact ⟨w3, hget⟩
  · obtain ⟨it, hnew, hsim, _⟩ := reader_iter_new cmp hc p t hwf fv tb hop w2
    obtain ⟨w3, it3, hrun, _⟩ := reader_scan cmp hc p t hwf fv tb hop w2 hok it hsim
    exact ⟨it, hnew, w3, it3, hrun⟩

end

/-- `NoShortCollision` needs no assumption for short reads that miss at most the last 4 bytes of the
    physical block (they lie in the checksum field): the read either changes nothing or is rejected -/
theorem C14_short_tail (cmp : Cmp) (t : TableImg) (hwf : t.WF cmp) (d : DBlock) (hd : d ∈ t.blocks)
    (k : Nat) (c : Bytes) (hk1 : d.handle.size + 1 ≤ k) (hk2 : k ≤ d.handle.size + 5)
    (hv : verifyBlock (((cleanBuf t.img d.handle.offset (d.handle.size + 5)).take k)
        ++ List.replicate (d.handle.size + 5 - k) 0) d.handle.size = .ok c) :
    c = d.blk.contents :=
  FT.short_tail_no_collision cmp t hwf d hd k c hk1 hk2 hv

end Sst

#print axioms Sst.C14_read_block
#print axioms Sst.C14_get_right_or_error
#print axioms Sst.C14_iter_call
#print axioms Sst.C14_session
#print axioms Sst.C14_recovers
#print axioms Sst.C14_short_tail
