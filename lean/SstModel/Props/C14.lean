import SstModel.Lemmas.Faulty
import SstModel.Lemmas.FaultyScan
import SstModel.Lemmas.FaultySeek
import SstModel.Lemmas.FaultyWitness
import SstModel.Lemmas.FaultySession
import SstModel.Props.ReaderWF
/-
  C14 — Failures of the random-access source do not stick.

  For EVERY pattern of failures of the source (`World.sched`: any `read_at` call may return an error or
  deliver only a prefix of the bytes, the rest of the buffer staying zero), on every well-formed table:
  lookups return the correct answer or an error, never a wrong answer; a block read that failed leaves the
  cache exactly as the lookup left it (nothing read during a failure is cached); iterator calls keep
  succeeding (C08) and keep the cache coherent; and after ANY interleaving of lookups and iterator calls
  (on any number of iterators) under ANY schedules, as soon as the source works again every operation
  returns the fully correct result.

  Standing hypotheses: a lawful comparator, an image `t` with `t.WF cmp`, a handle `tb` opened on it
  (`Opened`), a sound, validated filter (as in `get_ok`). About the world ONLY: the file holds the image
  (`FileOK`) and the cache is coherent for this table (`Coherent`) and validated (`CacheValid`, C08);
  NOTHING about the fault schedule.

  `NoShortCollision t`: a zero-padded short
  read of a data block does not pass CRC verification + structure validation with other contents. It
  needs no assumption when the short read misses at most the last 4 bytes (`C14_short_tail`); in general
  it excludes a CRC-32C collision between a block and its zero-filled truncation.
-/
namespace Sst
open Spec

section
variable (cmp : Cmp) (hc : cmp.Lawful) (p : FilterPolicy) (t : TableImg) (hwf : t.WF cmp)
  (fv : Option Bytes) (tb : Table) (hop : Opened tb t cmp p fv)
include hc hwf hop

/-- C14 (block reads): through the cache, under any schedule: the true contents or an error; the cache
    stays coherent (for this and every other table sharing it); on an error the cache is exactly what
    the cache lookup left — nothing read during the failure is cached -/
theorem C14_read_block (hns : NoShortCollision t) (w : World) (hf : FileOK w tb.file t.img)
    (hcoh : Coherent w tb.cacheId t) (d : DBlock) (hd : d ∈ t.blocks) :
    let r := tb.readBlock d.handle w
    FileOK r.1 tb.file t.img ∧ Coherent r.1 tb.cacheId t
      ∧ (r.2 = .ok d.blk.contents ∨ ∃ c, r.2 = .err c)
      ∧ (∀ id' t', id' ≠ tb.cacheId → Coherent w id' t' → Coherent r.1 id' t')
      ∧ ((∃ c, r.2 = .err c) → r.1.cache = (w.cache.get (tb.cacheId, d.handle.offset % 2 ^ 64)).1) :=
  readBlock_faulty cmp hc p t hwf fv tb hop hns w hf hcoh d hd

/-- C14 (lookups): right or error, never a wrong answer, under any schedule -/
theorem C14_get_right_or_error (hsound : ∀ fb, fv = some fb → FilterSound p t fb)
    (hfwf : ∀ fb, fv = some fb → FilterBlockReader.isWellFormed fb = true) (hns : NoShortCollision t)
    (w : World) (hf : FileOK w tb.file t.img) (hcoh : Coherent w tb.cacheId t) (k : Bytes) :
    let r := tb.get k w
    FileOK r.1 tb.file t.img ∧ Coherent r.1 tb.cacheId t
      ∧ (r.2 = .ok (Spec.lookup cmp t.entries k) ∨ ∃ c, r.2 = .err c) :=
  get_faulty cmp hc p t hwf fv tb hop hsound hfwf hns w hf hcoh k

/-- C14 (iterator calls): under any schedule every call succeeds, keeps the iterator invariant, the file,
    the coherence and the validity of the cache -/
theorem C14_iter_call (hns : NoShortCollision t) (it : TableIter) (hit : IterOK it) (htab : it.table = tb)
    (op : IterOp) (w : World) (hf : FileOK w tb.file t.img) (hcoh : Coherent w tb.cacheId t)
    (hcv : CacheValid w) :
    ∃ it' out, (it.call op w).2 = .ok (it', out) ∧ IterOK it' ∧ it'.table = tb
      ∧ FileOK (it.call op w).1 tb.file t.img ∧ Coherent (it.call op w).1 tb.cacheId t
      ∧ CacheValid (it.call op w).1 :=
  iter_call_faulty' cmp hc p t hwf fv tb hop hns it hit htab op w hf hcoh hcv

variable (hsound : ∀ fb, fv = some fb → FilterSound p t fb)
  (hfwf : ∀ fb, fv = some fb → FilterBlockReader.isWellFormed fb = true) (hns : NoShortCollision t)
include hsound hfwf hns

/-- C14 (whole sessions): in ANY session (`FT.Ev`: lookups, new iterators, calls on any iterator of the
    family, the environment re-arming the fault schedule at will) started from a world holding the image,
    every lookup returned the right answer or an error, no iterator call failed, every iterator still
    satisfies its invariant, and the world invariant holds at the end -/
theorem C14_session (its0 : List TableIter) (hits : ∀ it ∈ its0, IterOK it ∧ it.table = tb)
    (evs : List FT.Ev) (w0 : World) (hf : FileOK w0 tb.file t.img) (hcoh : Coherent w0 tb.cacheId t)
    (hcv : CacheValid w0) :
    let s1 := FT.run tb evs { w := w0, its := its0 }
    (∀ e ∈ s1.gets, e.2 = .ok (Spec.lookup cmp t.entries e.1) ∨ ∃ c, e.2 = .err c)
      ∧ s1.failedCalls = 0
      ∧ (∀ it ∈ s1.its, IterOK it ∧ it.table = tb)
      ∧ FileOK s1.w tb.file t.img ∧ Coherent s1.w tb.cacheId t ∧ CacheValid s1.w := by
  have h := FT.run_ok cmp hc p t hwf fv tb hop hsound hfwf hns evs { w := w0, its := its0 }
    ⟨⟨hf, hcoh, hcv⟩, hits, (by intro e he; cases he), rfl⟩
  exact ⟨h.gets, h.calls, h.its, h.inv.1, h.inv.2.1, h.inv.2.2⟩

/-- C14 (nothing sticks): after ANY session under ANY fault schedules, as soon as the source works again
    (`sched = []`) the world is `WorldOK`: every lookup is exact and a fresh iterator scans exactly the
    entries -/
theorem C14_recovers (its0 : List TableIter) (hits : ∀ it ∈ its0, IterOK it ∧ it.table = tb)
    (evs : List FT.Ev) (w0 : World) (hf : FileOK w0 tb.file t.img) (hcoh : Coherent w0 tb.cacheId t)
    (hcv : CacheValid w0) :
    let w1 := (FT.run tb evs { w := w0, its := its0 }).w
    ∀ w2, w2 = { w1 with sched := [] } →
      WorldOK w2 tb t
      ∧ (∀ k, ∃ w3, tb.get k w2 = (w3, .ok (Spec.lookup cmp t.entries k)))
      ∧ (∃ it, TableIter.new tb w2 = (w2, .ok it)
          ∧ ∃ w3 it3, it.run (List.replicate (t.entries.length + 1) IterOp.next) w2
              = (w3, .ok (it3, t.entries.map (fun e => IterOut.entry (some e)) ++ [IterOut.entry none]))) := by
  intro w1 w2 hw2
  have h := FT.run_ok cmp hc p t hwf fv tb hop hsound hfwf hns evs { w := w0, its := its0 }
    ⟨⟨hf, hcoh, hcv⟩, hits, (by intro e he; cases he), rfl⟩
  have hok : WorldOK w2 tb t := by
    subst hw2
    exact ⟨⟨h.inv.1, rfl⟩, h.inv.2.1⟩
  refine ⟨hok, ?_, ?_⟩
  · intro k
    obtain ⟨w3, hget, _⟩ := get_ok cmp hc p t hwf fv tb hop hsound hfwf w2 hok k
    exact ⟨w3, hget⟩
  · obtain ⟨it, hnew, hsim, _⟩ := reader_iter_new cmp hc p t hwf fv tb hop w2
    obtain ⟨w3, it3, hrun, _⟩ := reader_scan cmp hc p t hwf fv tb hop w2 hok it hsim
    exact ⟨it, hnew, w3, it3, hrun⟩

end

/-- `NoShortCollision` needs no assumption for short reads that miss at most the last 4 bytes of the
    physical block (they lie in the checksum field): the read either changes nothing or is rejected -/
theorem C14_short_tail (cmp : Cmp) (t : TableImg) (hwf : t.WF cmp) (d : DBlock) (hd : d ∈ t.blocks)
    (k : Nat) (c : Bytes) (hk1 : d.handle.size + 1 ≤ k) (hk2 : k ≤ d.handle.size + 5)
    (hv : verifyBlock (((cleanBuf t.img d.handle.offset (d.handle.size + 5)).take k)
        ++ List.replicate (d.handle.size + 5 - k) 0) d.handle.size = .ok c) :
    c = d.blk.contents :=
  FT.short_tail_no_collision cmp t hwf d hd k c hk1 hk2 hv

/-! ### scans and open under faults -/

section
variable (cmp : Cmp) (hc : cmp.Lawful) (p : FilterPolicy) (t : TableImg) (hwf : t.WF cmp)
  (fv : Option Bytes) (tb : Table) (hop : Opened tb t cmp p fv)
include hc hwf hop

/-- C14 (scans): under ANY fault schedule, from a before-first iterator (`SimT t tb it none`: a fresh
    iterator, `C14_scan_fresh`, or any iterator after `reset`, `C14_scan_after_reset`), calling `next`
    until it first returns `none`:
    * ends after `n + 1 ≤ t.entries.length + 1` calls,
    * yields exactly the entries of a sublist `bs` of the data blocks — only original entries, in table
      order, whole blocks (all entries of a kept block, contiguously) — then `none`,
    * `bs` is exactly the list of blocks whose `read_block` succeeded in this run (`FT.ScanFrom`: the reads
      are made in block order, each returns the true contents or an error), and every omitted block
      consumed at least one fault of the schedule (`FT.faultCount`: entries of `sched` other than `none`),
    * keeps the file, the coherence and the validity of the cache, and leaves the iterator before-first. -/
theorem C14_scan (hns : NoShortCollision t) (w : World) (hf : FileOK w tb.file t.img)
    (hcoh : Coherent w tb.cacheId t) (hcv : CacheValid w) (it : TableIter) (hs : SimT t tb it none) :
    ∃ bs w' it', bs.Sublist t.blocks ∧ FT.ScanFrom tb w t.blocks bs w'
      ∧ (bs.flatMap (·.blk.kvs)).length ≤ t.entries.length
      ∧ it.run (List.replicate ((bs.flatMap (·.blk.kvs)).length + 1) IterOp.next) w
          = (w', .ok (it', (bs.flatMap (·.blk.kvs)).map (fun e => IterOut.entry (some e))
                            ++ [IterOut.entry none]))
      ∧ FileOK w' tb.file t.img ∧ Coherent w' tb.cacheId t ∧ CacheValid w' ∧ SimT t tb it' none
      ∧ (t.blocks.length - bs.length) + FT.faultCount w' ≤ FT.faultCount w := by
  obtain ⟨bs, w', it', hscan, hrun, hinv, hsT, hcount⟩ :=
    FT.scan_faulty cmp hc p t hwf fv tb hop hns w ⟨hf, hcoh, hcv⟩ it hs
  exact ⟨bs, w', it', hscan.sublist, hscan, FT.scan_length_le t hscan.sublist, hrun,
    hinv.1, hinv.2.1, hinv.2.2, hsT, hcount⟩

/-- C14 (scans, any number of calls): with `bs` the blocks kept by the scan of `C14_scan`, ANY shorter run
    of `m ≤ n + 1` calls of `next` returns the first `m` outputs of that scan — original entries in table
    order, a prefix of the whole-block sequence -/
theorem C14_scan_prefix (hns : NoShortCollision t) (w : World) (hf : FileOK w tb.file t.img)
    (hcoh : Coherent w tb.cacheId t) (hcv : CacheValid w) (it : TableIter) (hs : SimT t tb it none) :
    ∃ bs : List DBlock, bs.Sublist t.blocks ∧ ∀ m, m ≤ (bs.flatMap (·.blk.kvs)).length + 1 →
      ∃ w1 it1, it.run (List.replicate m IterOp.next) w
        = (w1, .ok (it1, ((bs.flatMap (·.blk.kvs)).map (fun e => IterOut.entry (some e))
                            ++ [IterOut.entry none]).take m)) := by
  obtain ⟨bs, w', it', hscan, hrun, _⟩ :=
    FT.scan_faulty cmp hc p t hwf fv tb hop hns w ⟨hf, hcoh, hcv⟩ it hs
  refine ⟨bs, hscan.sublist, ?_⟩
  intro m hm
  obtain ⟨k, hk⟩ : ∃ k, (bs.flatMap (·.blk.kvs)).length + 1 = m + k := ⟨_, (Nat.add_sub_cancel' hm).symm⟩
  rw [hk, ← List.replicate_append_replicate] at hrun
  obtain ⟨w1, it1, h1⟩ := FT.run_prefix _ _ it w w' it' _ hrun
  rw [List.length_replicate] at h1
  exact ⟨w1, it1, h1⟩

/-- C14 (scans, no fault left): if the schedule holds no fault, nothing is omitted: the scan returns
    exactly the entries of the table (whatever happened before) -/
theorem C14_scan_no_faults (hns : NoShortCollision t) (w : World) (hf : FileOK w tb.file t.img)
    (hcoh : Coherent w tb.cacheId t) (hcv : CacheValid w) (hnf : FT.faultCount w = 0)
    (it : TableIter) (hs : SimT t tb it none) :
    ∃ w' it', it.run (List.replicate (t.entries.length + 1) IterOp.next) w
      = (w', .ok (it', t.entries.map (fun e => IterOut.entry (some e)) ++ [IterOut.entry none])) := by
  obtain ⟨bs, w', it', hscan, hrun, _, _, hcount⟩ :=
    FT.scan_faulty cmp hc p t hwf fv tb hop hns w ⟨hf, hcoh, hcv⟩ it hs
  have hbs : bs = t.blocks := hscan.sublist.eq_of_length_le (by omega)
  subst hbs
  rw [FT.entries_flatMap]
  exact ⟨w', it', hrun⟩

/-- a fresh iterator is before-first, in any world -/
theorem C14_scan_fresh (w : World) :
    ∃ it, TableIter.new tb w = (w, .ok it) ∧ SimT t tb it none :=
  iter_new_ok cmp hc p t hwf fv tb hop w

/-- any iterator of a session (`IterOK`, on this table) is before-first after `reset` -/
theorem C14_scan_after_reset (it : TableIter) (hit : IterOK it) (htab : it.table = tb) :
    SimT t tb it.reset none :=
  FT.simT_reset_of_good cmp hc p t hwf fv tb hop ⟨hit, htab⟩

end

/-- C14 (open): under ANY fault schedule, on a file holding a well-formed image, `Table::new` returns an
    error — and then leaves the cache untouched — or the handle of the image (`Opened`, for the filter block
    `fv` the reader policy sees); the file is kept and the cache contents are never changed by `open`.
    `NoShortCollisionMeta p t` is `NoShortCollision` for the index / metaindex / filter blocks. -/
theorem C14_open_right_or_error (cmp : Cmp) (hc : cmp.Lawful) (p : FilterPolicy) (t : TableImg)
    (hwf : t.WF cmp) (fv : Option Bytes) (hfv : FilterView p t fv) (hnsm : NoShortCollisionMeta p t)
    (w : World) (file : Nat) (hf : FileOK w file t.img) :
    let r := Table.new ⟨cmp, p⟩ file t.img.length w
    FileOK r.1 file t.img ∧ r.1.cache.entries = w.cache.entries ∧ r.1.cache.cap = w.cache.cap
      ∧ ((∃ c, r.2 = .err c ∧ r.1.cache = w.cache)
        ∨ (∃ tb, r.2 = .ok tb ∧ Opened tb t cmp p fv ∧ tb.file = file
            ∧ tb.cacheId = (w.cache.nextId + 1) % 2 ^ 64
            ∧ r.1.cache.nextId = (w.cache.nextId + 1) % 2 ^ 64)) :=
  FT.open_faulty cmp hc p t hwf fv hfv hnsm w file hf

/-- the clauses of `NoShortCollisionMeta` (and of `NoShortCollision`) need no assumption for short reads that
    miss at most the last 4 bytes of the physical block, for ANY verified block -/
theorem C14_short_tail_any (img : Bytes) (h : BlockHandle) (c0 : Bytes) (hread : blockAt img h = .ok c0)
    (k : Nat) (c : Bytes) (hk1 : h.size + 1 ≤ k) (hk2 : k ≤ h.size + 5)
    (hv : verifyBlock (((cleanBuf img h.offset (h.size + 5)).take k)
        ++ List.replicate (h.size + 5 - k) 0) h.size = .ok c) :
    c = c0 :=
  FT.short_tail_at img h c0 hread k c hk1 hk2 hv

/-! ### positional semantics of `seek` / `next` / `prev` under faults

  `SimT t tb it pos`: the iterator stands on entry `li` of data block `bi` (`pos = some (bi, li)`, flat index
  `t.flatPos pos` in `t.entries`) or is invalid (`pos = none`). `failed` is the list of data blocks whose
  `read_block` FAILED during the call; `FT.SeekOutcome` / `FT.StepOutcome` / `FT.PrevOutcome` /
  `FT.NextFrom` (Lemmas/FaultySeek.lean) say exactly which blocks were read, in which worlds, with which
  results. The model: `seek` resets the iterator when the block the index routes the target to fails to
  load; when that block loads but the target lies beyond its last key, and in `next`, the advance loop
  skips failing blocks; `prev` resets when the previous block fails to load. -/

section
variable (cmp : Cmp) (hc : cmp.Lawful) (p : FilterPolicy) (t : TableImg) (hwf : t.WF cmp)
  (fv : Option Bytes) (tb : Table) (hop : Opened tb t cmp p fv)
include hc hwf hop

/-- C14 (`seek` under faults): under ANY fault schedule, `seek k` on any iterator of a session succeeds and
    the iterator then simulates a position `pos'` (`valid` / `current` say so) such that
    * the current entry, if any, is a stored entry NOT BELOW the target;
    * the lower bound `j0` of `k` in `t.entries` exists whenever the iterator is valid, and the entries from
      `j0` up to the current one are exactly the entries of the blocks whose read failed in this call:
      never an entry of a readable block is skipped;
    * if no read failed the position is exactly `Spec.lowerBound cmp t.entries k`;
    * each failed read consumed a fault of the schedule; file, cache coherence / validity are kept. -/
theorem C14_seek_under_faults (hns : NoShortCollision t) (it : TableIter) (hit : IterOK it)
    (htab : it.table = tb) (w : World) (hf : FileOK w tb.file t.img) (hcoh : Coherent w tb.cacheId t)
    (hcv : CacheValid w) (k : Bytes) :
    ∃ failed w' it' pos', it.call (.seek k) w = (w', .ok (it', .unit))
      ∧ SimT t tb it' pos' ∧ FT.SeekOutcome cmp tb t k w failed w' pos'
      ∧ FileOK w' tb.file t.img ∧ Coherent w' tb.cacheId t ∧ CacheValid w'
      ∧ it'.valid = (t.flatPos pos').isSome
      ∧ (∀ w'', it'.current w'' = (w'', .ok (Spec.entryAt t.entries (t.flatPos pos'))))
      ∧ (∀ e, Spec.entryAt t.entries (t.flatPos pos') = some e → e ∈ t.entries ∧ cmp.cmp e.1 k ≠ .lt)
      ∧ (∀ j, t.flatPos pos' = some j → ∃ j0, Spec.lowerBound cmp t.entries k = some j0
            ∧ j = j0 + (failed.flatMap (·.blk.kvs)).length
            ∧ (t.entries.drop j0).take ((failed.flatMap (·.blk.kvs)).length) = failed.flatMap (·.blk.kvs))
      ∧ (failed = [] → t.flatPos pos' = Spec.lowerBound cmp t.entries k)
      ∧ failed.length + FT.faultCount w' ≤ FT.faultCount w := by
  obtain ⟨ipos, hon⟩ := FT.Good.on cmp hc p t hwf fv tb hop ⟨hit, htab⟩
  have hi : FT.Inv tb t w := ⟨hf, hcoh, hcv⟩
  obtain ⟨failed, w', it', pos', hrun, hsT, hinv, hout⟩ :=
    FT.seek_gen cmp hc p t hwf fv tb hop (FT.Inv tb t) (FT.loadOK_inv cmp hc p t hwf fv tb hop hns)
      it htab ipos hon.on.index w hi k
  refine ⟨failed, w', it', pos', ?_, hsT, hout, hinv.1, hinv.2.1, hinv.2.2,
    simT_valid cmp hc p t hwf fv tb hop it' pos' hsT,
    fun w'' => simT_current cmp hc p t hwf fv tb hop w'' it' pos' hsT, ?_,
    FT.seekOutcome_skipped cmp hc p t hwf fv tb hop hout, ?_,
    FT.seekOutcome_count cmp hc p t hwf fv tb hop hns hout hi⟩
  · show (it.seek k >>= fun it' => pure (it', IterOut.unit)) w = _
    rw [TI.bind_ok hrun]; rfl
  · intro e he
    refine ⟨?_, FT.seekOutcome_not_below cmp hc p t hwf fv tb hop hout e he⟩
    cases hfp : t.flatPos pos' with
    | none => rw [hfp] at he; cases he
    | some j => rw [hfp] at he; exact List.mem_of_getElem? he
  · intro hnil
    subst hnil
    exact FT.seekOutcome_exact cmp hc p t hwf fv tb hop hout

/-- C14 (`seek` of a STORED key under faults): the iterator is invalid — exactly when the block holding the
    key failed to load — or stands exactly on the entry of `k`; never on a later entry -/
theorem C14_seek_stored_key (hns : NoShortCollision t) (it : TableIter) (hit : IterOK it)
    (htab : it.table = tb) (w : World) (hf : FileOK w tb.file t.img) (hcoh : Coherent w tb.cacheId t)
    (hcv : CacheValid w) (d : DBlock) (hd : d ∈ t.blocks) (k : Bytes) (hk : k ∈ d.keys) :
    ∃ w' it', it.call (.seek k) w = (w', .ok (it', .unit))
      ∧ ((it'.valid = false ∧ (∀ w'', it'.current w'' = (w'', .ok none))
            ∧ ∃ w1 c, tb.readBlock d.handle w = (w1, .err c))
        ∨ (it'.valid = true ∧ ∃ v, (k, v) ∈ t.entries ∧ ∀ w'', it'.current w'' = (w'', .ok (some (k, v))))) := by
  obtain ⟨failed, w', it', pos', hrun, hsT, hout, _, _, _, hvalid, hcur, _⟩ :=
    C14_seek_under_faults cmp hc p t hwf fv tb hop hns it hit htab w hf hcoh hcv k
  refine ⟨w', it', hrun, ?_⟩
  rcases FT.seekOutcome_stored cmp hc p t hwf fv tb hop hout d hd hk with ⟨rfl, hfd⟩ | ⟨_, v, hv, hent⟩
  · left
    refine ⟨hvalid, hcur, ?_⟩
    -- the failed block is `d`: read off the outcome
    obtain ⟨bi, hS, hbd⟩ := FT.routed_of_key cmp hc t hwf d hd k hk
    unfold FT.SeekOutcome at hout
    rw [hS] at hout
    obtain ⟨d', hd', hcase⟩ := hout
    rw [hbd] at hd'
    cases hd'
    rcases hcase with ⟨c, hrb, _, _⟩ | ⟨w1, _, hm⟩
    · exact ⟨_, c, hrb⟩
    · -- impossible: `failed = [d]` but the block loaded and holds the key
      exfalso
      obtain ⟨e, hem, hek⟩ : ∃ e ∈ d.blk.kvs, e.1 = k := by
        have : k ∈ d.blk.kvs.map (·.1) := by rw [TI.kvs_keys]; exact hk
        obtain ⟨e, he, hek⟩ := List.mem_map.mp this
        exact ⟨e, he, hek⟩
      have hsorted : KeysSorted cmp (d.blk.kvs.map (·.1)) := by
        rw [TI.kvs_keys]; exact TI.block_sorted hwf hbd
      have hent := entryAt_lowerBound_of_mem cmp hc d.blk.kvs hsorted e.1 e.2 hem
      rw [hek] at hent
      cases hlb2 : Spec.lowerBound cmp d.blk.kvs k with
      | none => rw [hlb2] at hent; cases hent
      | some li =>
        rw [hlb2] at hm
        obtain ⟨hnil, _, _⟩ := hm
        rw [hnil] at hfd
        cases hfd
  · right
    have hmem : (k, v) ∈ t.entries := by
      rw [FT.entries_flatMap]
      exact List.mem_flatMap.mpr ⟨d, hd, hv⟩
    refine ⟨?_, v, hmem, fun w'' => by rw [hcur w'', hent]⟩
    rw [hvalid]
    cases hfp : t.flatPos pos' with
    | none => rw [hfp] at hent; cases hent
    | some j => rfl

/-- C14 (`advance` / `next` under faults, from ANY position — a scan resumed in the middle): the new
    position is the successor entry in `t.entries`, or the first entry of a later block, ALL blocks in between
    having failed to load in this call, or invalid with all remaining blocks failed (or none remaining):
    `FT.StepOutcome`. The successor `j0` exists whenever the iterator is valid afterwards, and the entries
    from `j0` up to the new current one are exactly those of the failed blocks; nothing failed ⇒ exactly
    the successor. -/
theorem C14_next_under_faults (hns : NoShortCollision t) (it : TableIter) (pos : Option (Nat × Nat))
    (hs : SimT t tb it pos) (w : World) (hf : FileOK w tb.file t.img) (hcoh : Coherent w tb.cacheId t)
    (hcv : CacheValid w) :
    ∃ failed w' it' pos', it.advance w = (w', .ok (it', (t.flatPos pos').isSome))
      ∧ it.next w = (w', .ok (it', Spec.entryAt t.entries (t.flatPos pos')))
      ∧ SimT t tb it' pos' ∧ FT.StepOutcome tb t pos w failed w' pos'
      ∧ FileOK w' tb.file t.img ∧ Coherent w' tb.cacheId t ∧ CacheValid w'
      ∧ (∀ j, t.flatPos pos' = some j → ∃ j0, (Spec.advance t.entries (t.flatPos pos)).1 = some j0
            ∧ j = j0 + (failed.flatMap (·.blk.kvs)).length
            ∧ (t.entries.drop j0).take ((failed.flatMap (·.blk.kvs)).length) = failed.flatMap (·.blk.kvs))
      ∧ (failed = [] → t.flatPos pos' = (Spec.advance t.entries (t.flatPos pos)).1)
      ∧ failed.length + FT.faultCount w' ≤ FT.faultCount w := by
  have hi : FT.Inv tb t w := ⟨hf, hcoh, hcv⟩
  obtain ⟨failed, w', it', pos', hadv, hsT, hinv, hout⟩ :=
    FT.advance_gen cmp hc p t hwf fv tb hop (FT.Inv tb t) (FT.loadOK_inv cmp hc p t hwf fv tb hop hns)
      it pos hs w hi
  have hflag : pos'.isSome = (t.flatPos pos').isSome := by cases pos' <;> rfl
  refine ⟨failed, w', it', pos', by rw [← hflag]; exact hadv,
    FT.next_of_advance cmp hc p t hwf fv tb hop hadv hsT, hsT, hout, hinv.1, hinv.2.1, hinv.2.2,
    FT.stepOutcome_skipped cmp hc p t hwf fv tb hop hs hout, ?_,
    FT.stepOutcome_count cmp hc p t hwf fv tb hop hns hout hi⟩
  intro hnil
  subst hnil
  exact FT.stepOutcome_exact cmp hc p t hwf fv tb hop hs hout

/-- C14 (`prev` under faults, from a valid position): the predecessor entry of `t.entries` (in the same
    block without any read; across a block boundary after loading the previous block), or — exactly when
    that load fails — invalid (the model resets the iterator). Never a wrong entry. -/
theorem C14_prev_under_faults (hns : NoShortCollision t) (it : TableIter) (bi li : Nat)
    (hs : SimT t tb it (some (bi, li))) (w : World) (hf : FileOK w tb.file t.img)
    (hcoh : Coherent w tb.cacheId t) (hcv : CacheValid w) :
    ∃ failed w' it' pos', it.prev w = (w', .ok (it', (t.flatPos pos').isSome))
      ∧ SimT t tb it' pos' ∧ FT.PrevOutcome tb t bi li w failed w' pos'
      ∧ FileOK w' tb.file t.img ∧ Coherent w' tb.cacheId t ∧ CacheValid w'
      ∧ ((failed = [] ∧ t.flatPos pos' = (Spec.prevValid (TwoLevel.flatIdx t.kvBlocks bi li)).1)
          ∨ (pos' = none ∧ ∃ d', failed = [d']))
      ∧ failed.length + FT.faultCount w' ≤ FT.faultCount w := by
  have hi : FT.Inv tb t w := ⟨hf, hcoh, hcv⟩
  obtain ⟨failed, w', it', pos', hrun, hsT, hinv, hout⟩ :=
    FT.prev_gen cmp hc p t hwf fv tb hop (FT.Inv tb t) (FT.loadOK_inv cmp hc p t hwf fv tb hop hns)
      it bi li hs w hi
  have hflag : pos'.isSome = (t.flatPos pos').isSome := by cases pos' <;> rfl
  exact ⟨failed, w', it', pos', by rw [← hflag]; exact hrun, hsT, hout, hinv.1, hinv.2.1, hinv.2.2,
    FT.prevOutcome_pred_or_invalid cmp hc p t hwf fv tb hop hout,
    FT.prevOutcome_count cmp hc p t hwf fv tb hop hns hout hi⟩

/-- C14 (every call keeps the simulation): under ANY fault schedule, every iterator call on an iterator
    that simulates a position succeeds and leaves an iterator that simulates a position — so `valid`,
    `current`, `current_key` never show anything but stored entries, whatever failed before -/
theorem C14_call_keeps_sim (hns : NoShortCollision t) (it : TableIter) (pos : Option (Nat × Nat))
    (hs : SimT t tb it pos) (op : IterOp) (w : World) (hf : FileOK w tb.file t.img)
    (hcoh : Coherent w tb.cacheId t) (hcv : CacheValid w) :
    ∃ w' it' out pos', it.call op w = (w', .ok (it', out)) ∧ SimT t tb it' pos'
      ∧ FileOK w' tb.file t.img ∧ Coherent w' tb.cacheId t ∧ CacheValid w' := by
  obtain ⟨w', it', out, pos', hrun, hsT, hinv⟩ :=
    FT.call_gen cmp hc p t hwf fv tb hop (FT.Inv tb t) (FT.loadOK_inv cmp hc p t hwf fv tb hop hns)
      it pos hs op w ⟨hf, hcoh, hcv⟩
  exact ⟨w', it', out, pos', hrun, hsT, hinv.1, hinv.2.1, hinv.2.2⟩

end

/-! ### non-vacuity (tests, labelled as such)

  The concrete table: the model writer's image (`FT.witnessImg`, 182 bytes) for the three entries
  `([1],[10]) ([2],[20]) ([3,5],[30])`, block size 0 (three data blocks), restart interval 2, no compression,
  the "no filter" policy (which still writes a filter block, so `fv = some _`). Concrete runs are evaluated
  by the kernel (`decide +kernel`, no extra axioms; the whole of Lemmas/FaultyWitness.lean checks in ≈ 12 s).
  `noShortCollisionB` / `noShortCollisionMetaB` are Bool checkers on the bytes of an image, sound for every
  well-formed `TableImg` with these bytes (`C14_noShortCollision_checker`); the harness can run them. -/

/-- the Bool checkers for `NoShortCollision` / `NoShortCollisionMeta` are sound -/
theorem C14_noShortCollision_checker (cmp : Cmp) (t : TableImg) (hwf : t.WF cmp) (p : FilterPolicy) :
    (noShortCollisionB t.img = true → NoShortCollision t)
      ∧ (noShortCollisionMetaB p t.img = true → NoShortCollisionMeta p t) :=
  ⟨FT.noShortCollisionB_sound hwf, FT.noShortCollisionMetaB_sound hwf p⟩

/-- C14 is not vacuous: ALL hypotheses of `C14_session` / `C14_scan` / `C14_seek_under_faults` /
    `C14_open_right_or_error` hold simultaneously for a concrete table with three data blocks and a world
    with a NON-EMPTY fault schedule — including `NoShortCollision t` and `NoShortCollisionMeta p t` -/
theorem C14_nonvacuous :
    ∃ (t : TableImg) (fv : Option Bytes) (tb : Table) (it : TableIter) (w : World),
      defaultCmp.Lawful ∧ t.WF defaultCmp ∧ t.img = FT.witnessImg ∧ t.blocks.length = 3
        ∧ t.entries = [([1], [10]), ([2], [20]), ([3, 5], [30])]
        ∧ FilterView noFilterPolicy t fv ∧ (∃ fb, fv = some fb)
        ∧ Opened tb t defaultCmp noFilterPolicy fv
        ∧ (∀ fb, fv = some fb → FilterSound noFilterPolicy t fb)
        ∧ (∀ fb, fv = some fb → FilterBlockReader.isWellFormed fb = true)
        ∧ NoShortCollision t ∧ NoShortCollisionMeta noFilterPolicy t
        ∧ FileOK w tb.file t.img ∧ Coherent w tb.cacheId t ∧ CacheValid w
        ∧ w.sched = [Fault.none, Fault.ioError]
        ∧ IterOK it ∧ it.table = tb ∧ SimT t tb it none := by
  obtain ⟨t, fv, tb, it, w1, h⟩ := FT.witness_exists
  obtain ⟨d0, d1, d2, hbl, _⟩ := h.blocks
  obtain ⟨hf, hcoh, hcv, hs⟩ := h.world [Fault.none, Fault.ioError]
  refine ⟨t, fv, tb, it, FT.armed w1 [Fault.none, Fault.ioError], defaultCmp_lawful, h.wf, h.img,
    by rw [hbl]; rfl, h.entries, h.fview, ?_, h.opened, h.sound, h.fwf, h.noShort, h.noShortMeta,
    hf, hcoh, hcv, hs, h.iterOK, h.itab, h.sim⟩
  -- the policy's name is recorded in the metaindex with a non-empty handle: the filter block is seen
  have hdec : BlockHandle.tryDecode [55, 9] = some (⟨55, 9⟩, 2) := by decide +kernel
  cases hfv : h.fview with
  | absent hno =>
    exact absurd rfl (hno (Table.filterName noFilterPolicy, [55, 9]) (by rw [h.metaKVs]; simp))
  | empty v fh n hm hd hz =>
    rw [h.metaKVs] at hm
    simp only [List.mem_singleton, Prod.mk.injEq, true_and] at hm
    subst hm
    rw [hdec] at hd
    cases hd
    cases hz
  | present v fh n fb hm hd hz hb hr hw => exact ⟨fb, rfl⟩

/-- C14 on that instance. With the schedule `[none, ioError]` (the read of the SECOND data block fails once):
    the forward scan of a fresh iterator returns exactly the entries of the other two blocks, then `none`
    (3 calls); the schedule is then exhausted and the next scan returns all three entries (`C14_recovers`);
    `seek [2]` under `[ioError]` is invalid, repeated it stands on `([2],[20])`; the lookup of `[2]` under
    `[ioError]` is `Err(IOError)`, repeated it is `[20]`; under a short read (`short 7`) it is `Corruption`. -/
theorem C14_instance :
    ∃ (t : TableImg) (fv : Option Bytes) (tb : Table) (it : TableIter) (w1 : World),
      FT.WitnessOK t fv tb it w1
        ∧ (∃ w' it', it.run (List.replicate 3 IterOp.next) (FT.armed w1 [Fault.none, Fault.ioError])
            = (w', .ok (it', [.entry (some ([1], [10])), .entry (some ([3, 5], [30])), .entry none])))
        ∧ (∃ w' it', it.run (List.replicate 7 IterOp.next) (FT.armed w1 [Fault.none, Fault.ioError])
            = (w', .ok (it', [.entry (some ([1], [10])), .entry (some ([3, 5], [30])), .entry none,
                .entry (some ([1], [10])), .entry (some ([2], [20])), .entry (some ([3, 5], [30])),
                .entry none])))
        ∧ (∃ w' it', it.run [.seek [2], .valid, .current, .seek [2], .valid, .current]
              (FT.armed w1 [Fault.ioError])
            = (w', .ok (it', [.unit, .flag false, .entry none, .unit, .flag true, .entry (some ([2], [20]))])))
        ∧ (tb.get [2] (FT.armed w1 [Fault.ioError])).2 = .err .ioError
        ∧ (tb.get [2] (tb.get [2] (FT.armed w1 [Fault.ioError])).1).2 = .ok (some [20])
        ∧ (tb.get [2] (FT.armed w1 [Fault.short 7])).2 = .err .corruption := by
  obtain ⟨t, fv, tb, it, w1, h⟩ := FT.witness_exists
  have e3 := FT.withOpened_of h.hnew h.hit FT.witness_scan3_eval
  have e7 := FT.withOpened_of h.hnew h.hit FT.witness_scan_eval
  have es := FT.withOpened_of h.hnew h.hit FT.witness_seek_eval
  have eg := FT.withOpened_of h.hnew h.hit FT.witness_get_eval
  have eh := FT.withOpened_of h.hnew h.hit FT.witness_get_short_eval
  simp only [Bool.and_eq_true] at eg
  exact ⟨t, fv, tb, it, w1, h, FT.runB_sound e3, FT.runB_sound e7, FT.runB_sound es,
    FT.getB_sound eg.1, FT.getB_sound eg.2, FT.getB_sound eh⟩

/-- … and the general theorems applied to the instance (their hypotheses are discharged by `FT.WitnessOK`):
    `C14_scan` under `[none, ioError]` and `C14_recovers` after any session -/
theorem C14_instance_theorems :
    ∃ (t : TableImg) (fv : Option Bytes) (tb : Table) (it : TableIter) (w1 : World),
      FT.WitnessOK t fv tb it w1
        ∧ (∃ (bs : List DBlock) (w' : World) (it' : TableIter), bs.Sublist t.blocks
            ∧ it.run (List.replicate ((bs.flatMap (·.blk.kvs)).length + 1) IterOp.next)
                (FT.armed w1 [Fault.none, Fault.ioError])
              = (w', .ok (it', (bs.flatMap (·.blk.kvs)).map (fun e => IterOut.entry (some e))
                            ++ [IterOut.entry none]))
            ∧ (t.blocks.length - bs.length) + FT.faultCount w' ≤ 1)
        ∧ (∀ evs : List FT.Ev, ∀ k, ∃ w3,
            tb.get k { (FT.run tb evs { w := FT.armed w1 [Fault.none, Fault.ioError], its := [it] }).w
                        with sched := [] }
              = (w3, .ok (Spec.lookup defaultCmp t.entries k))) := by
  obtain ⟨t, fv, tb, it, w1, h⟩ := FT.witness_exists
  obtain ⟨hf, hcoh, hcv, _⟩ := h.world [Fault.none, Fault.ioError]
  refine ⟨t, fv, tb, it, w1, h, ?_, ?_⟩
  · obtain ⟨bs, w', it', hsub, _, _, hrun, _, _, _, _, hcount⟩ :=
      C14_scan defaultCmp defaultCmp_lawful noFilterPolicy t h.wf fv tb h.opened h.noShort _ hf hcoh hcv it h.sim
    exact ⟨bs, w', it', hsub, hrun, hcount⟩
  · intro evs k
    have := C14_recovers defaultCmp defaultCmp_lawful noFilterPolicy t h.wf fv tb h.opened h.sound h.fwf
      h.noShort [it] (by intro x hx; rw [List.mem_singleton.mp hx]; exact ⟨h.iterOK, h.itab⟩) evs _ hf hcoh hcv
    exact (this _ rfl).2.1 k

/-! ### sessions whose iterators simulate positions -/

section
variable (cmp : Cmp) (hc : cmp.Lawful) (p : FilterPolicy) (t : TableImg) (hwf : t.WF cmp)
  (fv : Option Bytes) (tb : Table) (hop : Opened tb t cmp p fv)
  (hsound : ∀ fb, fv = some fb → FilterSound p t fb)
  (hfwf : ∀ fb, fv = some fb → FilterBlockReader.isWellFormed fb = true) (hns : NoShortCollision t)
include hc hwf hop hsound hfwf hns

/-- C14 (sessions, with simulation): like `C14_session`, but every iterator of the family simulates a
    position (`∃ pos, SimT t tb it pos`) before — fresh iterators and reset ones do — and after ANY session
    under ANY fault schedules: `FT.SessSim` is an invariant of `FT.run`. Hence `valid` / `current` /
    `current_key` of every iterator, at every moment, show a stored entry or nothing. -/
theorem C14_session_sim (its0 : List TableIter) (hits : ∀ it ∈ its0, ∃ pos, SimT t tb it pos)
    (evs : List FT.Ev) (w0 : World) (hf : FileOK w0 tb.file t.img) (hcoh : Coherent w0 tb.cacheId t)
    (hcv : CacheValid w0) :
    let s1 := FT.run tb evs { w := w0, its := its0 }
    FT.SessSim cmp tb t s1
      ∧ (∀ it ∈ s1.its, ∃ pos, SimT t tb it pos)
      ∧ (∀ e ∈ s1.gets, e.2 = .ok (Spec.lookup cmp t.entries e.1) ∨ ∃ c, e.2 = .err c)
      ∧ s1.failedCalls = 0
      ∧ FileOK s1.w tb.file t.img ∧ Coherent s1.w tb.cacheId t ∧ CacheValid s1.w := by
  have h := FT.run_sim cmp hc p t hwf fv tb hop hsound hfwf hns evs { w := w0, its := its0 }
    ⟨⟨hf, hcoh, hcv⟩, hits, (by intro e he; cases he), rfl⟩
  exact ⟨h, h.its, h.gets, h.calls, h.inv.1, h.inv.2.1, h.inv.2.2⟩

/-- C14 (sessions, every call): in ANY state reached by a session (`FT.SessSim`, kept by `FT.run`:
    `C14_session_sim`), a call `op` on the `i`-th iterator succeeds, the session step stores the new
    iterator, and the call is described by `FT.CallOutcome`: `FT.StepOutcome` for `advance` / `next` /
    `seek_to_first`, `FT.SeekOutcome` for `seek`, `FT.PrevOutcome` for `prev` from a valid position — i.e. the
    per-call theorems `C14_next_under_faults` / `C14_seek_under_faults` / `C14_prev_under_faults` hold at
    every step of every session -/
theorem C14_session_call (s : FT.Sess) (hs : FT.SessSim cmp tb t s) (i : Nat) (it : TableIter)
    (hi : s.its[i]? = some it) (op : IterOp) :
    ∃ pos w' it' out pos', SimT t tb it pos ∧ it.call op s.w = (w', .ok (it', out))
      ∧ SimT t tb it' pos' ∧ FT.Inv tb t w' ∧ FT.CallOutcome cmp tb t pos op s.w w' pos' out
      ∧ FT.step tb s (.call i op) = { s with w := w', its := s.its.set i it' }
      ∧ FT.SessSim cmp tb t (FT.step tb s (.call i op)) :=
  let ⟨pos, w', it', out, pos', a, b, c, d, e, f⟩ :=
    FT.session_call cmp hc p t hwf fv tb hop hsound hfwf hns s hs i it hi op
  ⟨pos, w', it', out, pos', a, b, c, d, e, f,
    FT.step_sim cmp hc p t hwf fv tb hop hsound hfwf hns s hs (.call i op)⟩

end

end Sst

#print axioms Sst.C14_read_block
#print axioms Sst.C14_get_right_or_error
#print axioms Sst.C14_iter_call
#print axioms Sst.C14_session
#print axioms Sst.C14_recovers
#print axioms Sst.C14_short_tail
#print axioms Sst.C14_scan
#print axioms Sst.C14_scan_prefix
#print axioms Sst.C14_scan_no_faults
#print axioms Sst.C14_scan_fresh
#print axioms Sst.C14_scan_after_reset
#print axioms Sst.C14_open_right_or_error
#print axioms Sst.C14_short_tail_any
#print axioms Sst.C14_seek_under_faults
#print axioms Sst.C14_seek_stored_key
#print axioms Sst.C14_next_under_faults
#print axioms Sst.C14_prev_under_faults
#print axioms Sst.C14_call_keeps_sim
#print axioms Sst.C14_noShortCollision_checker
#print axioms Sst.C14_nonvacuous
#print axioms Sst.C14_instance
#print axioms Sst.C14_instance_theorems
#print axioms Sst.C14_session_sim
#print axioms Sst.C14_session_call
