import SstModel.Lemmas.Faulty
import SstModel.Lemmas.FaultyScan
import SstModel.Props.ReaderWF
/-
  C14 — Failures of the random-access source do not stick.

  For EVERY pattern of failures of the source (`World.sched`: any `read_at` call may return an error or
  deliver only a prefix of the bytes, the rest of the buffer staying zero), on every well-formed table:
  lookups return the correct answer or an error, never a wrong answer; a block read that failed leaves the
  cache exactly as the lookup left it (nothing read during a failure is cached); iterator calls keep
  succeeding (C08) and keep the cache coherent; and after ANY interleaving of lookups and iterator calls
  (on any number of iterators) under ANY schedules, as soon as the source works again every operation
  returns the fully correct result.

  Standing hypotheses: a lawful comparator, an image `t` with `t.WF cmp`, a handle `tb` opened on it
  (`Opened`), a sound, validated filter (as in `get_ok`). About the world ONLY: the file holds the image
  (`FileOK`) and the cache is coherent for this table (`Coherent`) and validated (`CacheValid`, C08);
  NOTHING about the fault schedule.

  `NoShortCollision t`: a zero-padded short
  read of a data block does not pass CRC verification + structure validation with other contents. It
  needs no assumption when the short read misses at most the last 4 bytes (`C14_short_tail`); in general
  it excludes a CRC-32C collision between a block and its zero-filled truncation.
-/
namespace Sst
open Spec

section
variable (cmp : Cmp) (hc : cmp.Lawful) (p : FilterPolicy) (t : TableImg) (hwf : t.WF cmp)
  (fv : Option Bytes) (tb : Table) (hop : Opened tb t cmp p fv)
include hc hwf hop

/-- C14 (block reads): through the cache, under any schedule: the true contents or an error; the cache
    stays coherent (for this and every other table sharing it); on an error the cache is exactly what
    the cache lookup left — nothing read during the failure is cached -/
theorem C14_read_block (hns : NoShortCollision t) (w : World) (hf : FileOK w tb.file t.img)
    (hcoh : Coherent w tb.cacheId t) (d : DBlock) (hd : d ∈ t.blocks) :
    let r := tb.readBlock d.handle w
    FileOK r.1 tb.file t.img ∧ Coherent r.1 tb.cacheId t
      ∧ (r.2 = .ok d.blk.contents ∨ ∃ c, r.2 = .err c)
      ∧ (∀ id' t', id' ≠ tb.cacheId → Coherent w id' t' → Coherent r.1 id' t')
      ∧ ((∃ c, r.2 = .err c) → r.1.cache = (w.cache.get (tb.cacheId, d.handle.offset % 2 ^ 64)).1) :=
  readBlock_faulty cmp hc p t hwf fv tb hop hns w hf hcoh d hd

/-- C14 (lookups): right or error, never a wrong answer, under any schedule -/
theorem C14_get_right_or_error (hsound : ∀ fb, fv = some fb → FilterSound p t fb)
    (hfwf : ∀ fb, fv = some fb → FilterBlockReader.isWellFormed fb = true) (hns : NoShortCollision t)
    (w : World) (hf : FileOK w tb.file t.img) (hcoh : Coherent w tb.cacheId t) (k : Bytes) :
    let r := tb.get k w
    FileOK r.1 tb.file t.img ∧ Coherent r.1 tb.cacheId t
      ∧ (r.2 = .ok (Spec.lookup cmp t.entries k) ∨ ∃ c, r.2 = .err c) :=
  get_faulty cmp hc p t hwf fv tb hop hsound hfwf hns w hf hcoh k

/-- C14 (iterator calls): under any schedule every call succeeds, keeps the iterator invariant, the file,
    the coherence and the validity of the cache -/
theorem C14_iter_call (hns : NoShortCollision t) (it : TableIter) (hit : IterOK it) (htab : it.table = tb)
    (op : IterOp) (w : World) (hf : FileOK w tb.file t.img) (hcoh : Coherent w tb.cacheId t)
    (hcv : CacheValid w) :
    ∃ it' out, (it.call op w).2 = .ok (it', out) ∧ IterOK it' ∧ it'.table = tb
      ∧ FileOK (it.call op w).1 tb.file t.img ∧ Coherent (it.call op w).1 tb.cacheId t
      ∧ CacheValid (it.call op w).1 :=
  iter_call_faulty' cmp hc p t hwf fv tb hop hns it hit htab op w hf hcoh hcv

variable (hsound : ∀ fb, fv = some fb → FilterSound p t fb)
  (hfwf : ∀ fb, fv = some fb → FilterBlockReader.isWellFormed fb = true) (hns : NoShortCollision t)
include hsound hfwf hns

/-- C14 (whole sessions): in ANY session (`FT.Ev`: lookups, new iterators, calls on any iterator of the
    family, the environment re-arming the fault schedule at will) started from a world holding the image,
    every lookup returned the right answer or an error, no iterator call failed, every iterator still
    satisfies its invariant, and the world invariant holds at the end -/
theorem C14_session (its0 : List TableIter) (hits : ∀ it ∈ its0, IterOK it ∧ it.table = tb)
    (evs : List FT.Ev) (w0 : World) (hf : FileOK w0 tb.file t.img) (hcoh : Coherent w0 tb.cacheId t)
    (hcv : CacheValid w0) :
    let s1 := FT.run tb evs { w := w0, its := its0 }
    (∀ e ∈ s1.gets, e.2 = .ok (Spec.lookup cmp t.entries e.1) ∨ ∃ c, e.2 = .err c)
      ∧ s1.failedCalls = 0
      ∧ (∀ it ∈ s1.its, IterOK it ∧ it.table = tb)
      ∧ FileOK s1.w tb.file t.img ∧ Coherent s1.w tb.cacheId t ∧ CacheValid s1.w := by
  have h := FT.run_ok cmp hc p t hwf fv tb hop hsound hfwf hns evs { w := w0, its := its0 }
    ⟨⟨hf, hcoh, hcv⟩, hits, (by intro e he; cases he), rfl⟩
  exact ⟨h.gets, h.calls, h.its, h.inv.1, h.inv.2.1, h.inv.2.2⟩

/-- C14 (nothing sticks): after ANY session under ANY fault schedules, as soon as the source works again
    (`sched = []`) the world is `WorldOK`: every lookup is exact and a fresh iterator scans exactly the
    entries -/
theorem C14_recovers (its0 : List TableIter) (hits : ∀ it ∈ its0, IterOK it ∧ it.table = tb)
    (evs : List FT.Ev) (w0 : World) (hf : FileOK w0 tb.file t.img) (hcoh : Coherent w0 tb.cacheId t)
    (hcv : CacheValid w0) :
    let w1 := (FT.run tb evs { w := w0, its := its0 }).w
    ∀ w2, w2 = { w1 with sched := [] } →
      WorldOK w2 tb t
      ∧ (∀ k, ∃ w3, tb.get k w2 = (w3, .ok (Spec.lookup cmp t.entries k)))
      ∧ (∃ it, TableIter.new tb w2 = (w2, .ok it)
          ∧ ∃ w3 it3, it.run (List.replicate (t.entries.length + 1) IterOp.next) w2
              = (w3, .ok (it3, t.entries.map (fun e => IterOut.entry (some e)) ++ [IterOut.entry none]))) := by
  intro w1 w2 hw2
  have h := FT.run_ok cmp hc p t hwf fv tb hop hsound hfwf hns evs { w := w0, its := its0 }
    ⟨⟨hf, hcoh, hcv⟩, hits, (by intro e he; cases he), rfl⟩
  have hok : WorldOK w2 tb t := by
    subst hw2
    exact ⟨⟨h.inv.1, rfl⟩, h.inv.2.1⟩
  refine ⟨hok, ?_, ?_⟩
  · intro k
    obtain ⟨w3, hget, _⟩ := get_ok cmp hc p t hwf fv tb hop hsound hfwf w2 hok k
    exact ⟨w3, hget⟩
  · obtain ⟨it, hnew, hsim, _⟩ := reader_iter_new cmp hc p t hwf fv tb hop w2
    obtain ⟨w3, it3, hrun, _⟩ := reader_scan cmp hc p t hwf fv tb hop w2 hok it hsim
    exact ⟨it, hnew, w3, it3, hrun⟩

end

/-- `NoShortCollision` needs no assumption for short reads that miss at most the last 4 bytes of the
    physical block (they lie in the checksum field): the read either changes nothing or is rejected -/
theorem C14_short_tail (cmp : Cmp) (t : TableImg) (hwf : t.WF cmp) (d : DBlock) (hd : d ∈ t.blocks)
    (k : Nat) (c : Bytes) (hk1 : d.handle.size + 1 ≤ k) (hk2 : k ≤ d.handle.size + 5)
    (hv : verifyBlock (((cleanBuf t.img d.handle.offset (d.handle.size + 5)).take k)
        ++ List.replicate (d.handle.size + 5 - k) 0) d.handle.size = .ok c) :
    c = d.blk.contents :=
  FT.short_tail_no_collision cmp t hwf d hd k c hk1 hk2 hv

/-! ### scans and open under faults -/

section
variable (cmp : Cmp) (hc : cmp.Lawful) (p : FilterPolicy) (t : TableImg) (hwf : t.WF cmp)
  (fv : Option Bytes) (tb : Table) (hop : Opened tb t cmp p fv)
include hc hwf hop

/-- C14 (scans): under ANY fault schedule, from a before-first iterator (`SimT t tb it none`: a fresh
    iterator, `C14_scan_fresh`, or any iterator after `reset`, `C14_scan_after_reset`), calling `next`
    until it first returns `none`:
    * ends after `n + 1 ≤ t.entries.length + 1` calls,
    * yields exactly the entries of a sublist `bs` of the data blocks — only original entries, in table
      order, whole blocks (all entries of a kept block, contiguously) — then `none`,
    * `bs` is exactly the list of blocks whose `read_block` succeeded in this run (`FT.ScanFrom`: the reads
      are made in block order, each returns the true contents or an error), and every omitted block
      consumed at least one fault of the schedule (`FT.faultCount`: entries of `sched` other than `none`),
    * keeps the file, the coherence and the validity of the cache, and leaves the iterator before-first. -/
theorem C14_scan (hns : NoShortCollision t) (w : World) (hf : FileOK w tb.file t.img)
    (hcoh : Coherent w tb.cacheId t) (hcv : CacheValid w) (it : TableIter) (hs : SimT t tb it none) :
    ∃ bs w' it', bs.Sublist t.blocks ∧ FT.ScanFrom tb w t.blocks bs w'
      ∧ (bs.flatMap (·.blk.kvs)).length ≤ t.entries.length
      ∧ it.run (List.replicate ((bs.flatMap (·.blk.kvs)).length + 1) IterOp.next) w
          = (w', .ok (it', (bs.flatMap (·.blk.kvs)).map (fun e => IterOut.entry (some e))
                            ++ [IterOut.entry none]))
      ∧ FileOK w' tb.file t.img ∧ Coherent w' tb.cacheId t ∧ CacheValid w' ∧ SimT t tb it' none
      ∧ (t.blocks.length - bs.length) + FT.faultCount w' ≤ FT.faultCount w := by
  obtain ⟨bs, w', it', hscan, hrun, hinv, hsT, hcount⟩ :=
    FT.scan_faulty cmp hc p t hwf fv tb hop hns w ⟨hf, hcoh, hcv⟩ it hs
  exact ⟨bs, w', it', hscan.sublist, hscan, FT.scan_length_le t hscan.sublist, hrun,
    hinv.1, hinv.2.1, hinv.2.2, hsT, hcount⟩

/-- C14 (scans, any number of calls): with `bs` the blocks kept by the scan of `C14_scan`, ANY shorter run
    of `m ≤ n + 1` calls of `next` returns the first `m` outputs of that scan — original entries in table
    order, a prefix of the whole-block sequence -/
theorem C14_scan_prefix (hns : NoShortCollision t) (w : World) (hf : FileOK w tb.file t.img)
    (hcoh : Coherent w tb.cacheId t) (hcv : CacheValid w) (it : TableIter) (hs : SimT t tb it none) :
    ∃ bs : List DBlock, bs.Sublist t.blocks ∧ ∀ m, m ≤ (bs.flatMap (·.blk.kvs)).length + 1 →
      ∃ w1 it1, it.run (List.replicate m IterOp.next) w
        = (w1, .ok (it1, ((bs.flatMap (·.blk.kvs)).map (fun e => IterOut.entry (some e))
                            ++ [IterOut.entry none]).take m)) := by
  obtain ⟨bs, w', it', hscan, hrun, _⟩ :=
    FT.scan_faulty cmp hc p t hwf fv tb hop hns w ⟨hf, hcoh, hcv⟩ it hs
  refine ⟨bs, hscan.sublist, ?_⟩
  intro m hm
  obtain ⟨k, hk⟩ : ∃ k, (bs.flatMap (·.blk.kvs)).length + 1 = m + k := ⟨_, (Nat.add_sub_cancel' hm).symm⟩
  rw [hk, ← List.replicate_append_replicate] at hrun
  obtain ⟨w1, it1, h1⟩ := FT.run_prefix _ _ it w w' it' _ hrun
  rw [List.length_replicate] at h1
  exact ⟨w1, it1, h1⟩

/-- C14 (scans, no fault left): if the schedule holds no fault, nothing is omitted: the scan returns
    exactly the entries of the table (whatever happened before) -/
theorem C14_scan_no_faults (hns : NoShortCollision t) (w : World) (hf : FileOK w tb.file t.img)
    (hcoh : Coherent w tb.cacheId t) (hcv : CacheValid w) (hnf : FT.faultCount w = 0)
    (it : TableIter) (hs : SimT t tb it none) :
    ∃ w' it', it.run (List.replicate (t.entries.length + 1) IterOp.next) w
      = (w', .ok (it', t.entries.map (fun e => IterOut.entry (some e)) ++ [IterOut.entry none])) := by
  obtain ⟨bs, w', it', hscan, hrun, _, _, hcount⟩ :=
    FT.scan_faulty cmp hc p t hwf fv tb hop hns w ⟨hf, hcoh, hcv⟩ it hs
  have hbs : bs = t.blocks := hscan.sublist.eq_of_length_le (by omega)
  subst hbs
  rw [FT.entries_flatMap]
  exact ⟨w', it', hrun⟩

/-- a fresh iterator is before-first, in any world -/
theorem C14_scan_fresh (w : World) :
    ∃ it, TableIter.new tb w = (w, .ok it) ∧ SimT t tb it none :=
  iter_new_ok cmp hc p t hwf fv tb hop w

/-- any iterator of a session (`IterOK`, on this table) is before-first after `reset` -/
theorem C14_scan_after_reset (it : TableIter) (hit : IterOK it) (htab : it.table = tb) :
    SimT t tb it.reset none :=
  FT.simT_reset_of_good cmp hc p t hwf fv tb hop ⟨hit, htab⟩

end

/-- C14 (open): under ANY fault schedule, on a file holding a well-formed image, `Table::new` returns an
    error — and then leaves the cache untouched — or the handle of the image (`Opened`, for the filter block
    `fv` the reader policy sees); the file is kept and the cache contents are never changed by `open`.
    `NoShortCollisionMeta p t` is `NoShortCollision` for the index / metaindex / filter blocks. -/
theorem C14_open_right_or_error (cmp : Cmp) (hc : cmp.Lawful) (p : FilterPolicy) (t : TableImg)
    (hwf : t.WF cmp) (fv : Option Bytes) (hfv : FilterView p t fv) (hnsm : NoShortCollisionMeta p t)
    (w : World) (file : Nat) (hf : FileOK w file t.img) :
    let r := Table.new ⟨cmp, p⟩ file t.img.length w
    FileOK r.1 file t.img ∧ r.1.cache.entries = w.cache.entries ∧ r.1.cache.cap = w.cache.cap
      ∧ ((∃ c, r.2 = .err c ∧ r.1.cache = w.cache)
        ∨ (∃ tb, r.2 = .ok tb ∧ Opened tb t cmp p fv ∧ tb.file = file
            ∧ tb.cacheId = (w.cache.nextId + 1) % 2 ^ 64
            ∧ r.1.cache.nextId = (w.cache.nextId + 1) % 2 ^ 64)) :=
  FT.open_faulty cmp hc p t hwf fv hfv hnsm w file hf

/-- the clauses of `NoShortCollisionMeta` (and of `NoShortCollision`) need no assumption for short reads that
    miss at most the last 4 bytes of the physical block, for ANY verified block -/
theorem C14_short_tail_any (img : Bytes) (h : BlockHandle) (c0 : Bytes) (hread : blockAt img h = .ok c0)
    (k : Nat) (c : Bytes) (hk1 : h.size + 1 ≤ k) (hk2 : k ≤ h.size + 5)
    (hv : verifyBlock (((cleanBuf img h.offset (h.size + 5)).take k)
        ++ List.replicate (h.size + 5 - k) 0) h.size = .ok c) :
    c = c0 :=
  FT.short_tail_at img h c0 hread k c hk1 hk2 hv

end Sst

#print axioms Sst.C14_read_block
#print axioms Sst.C14_get_right_or_error
#print axioms Sst.C14_iter_call
#print axioms Sst.C14_session
#print axioms Sst.C14_recovers
#print axioms Sst.C14_short_tail
#print axioms Sst.C14_scan
#print axioms Sst.C14_scan_prefix
#print axioms Sst.C14_scan_no_faults
#print axioms Sst.C14_scan_fresh
#print axioms Sst.C14_scan_after_reset
#print axioms Sst.C14_open_right_or_error
#print axioms Sst.C14_short_tail_any
