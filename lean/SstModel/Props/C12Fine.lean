import SstModel.Lemmas.FineJobs
import SstModel.Lemmas.BuiltRead
import SstModel.Props.C10
/-
  C12 at the granularity of the CRITICAL SECTIONS.

  `C10_interleaving` / `C12_linearisations` treat a whole client operation (one iterator call, one
  lookup) as atomic. In the crate it is not: the cache lock is taken only inside `Table::read_block`
  (cache lookup; on a miss the file read and verification; cache insert — all under the lock), and one
  operation may contain several such critical sections with thread-local computation in between.

  Here every operation is a program (`Prog`, Model/Prog.lean) whose critical sections are explicit;
  `Prog.run` of that program is — as a function on worlds — the monadic model of Model/Table.lean
  (`C12_fine_program_is_model`). Threads are interleaved at the granularity of the critical sections
  (`Fine.Cfg.step`: thread `i`, standing at a request `rb t h k`, executes `t.readBlock h` on the
  shared world atomically and continues as `k r`; `Fine.Cfg.exec`: a schedule = a list of thread
  indices). The theorems:

  * `C12_fine_result_independent`: for any family of tables sharing the cache (hypotheses of
    `C10_interleaving`), any number of threads each executing one operation (an iterator call, a whole
    session of calls on an iterator, a lookup) and EVERY schedule that runs all threads to completion:
    each thread returns exactly what its operation returns when run alone (atomically) in the initial
    world — never a panic, `diverge` or `LockError` —, and the world invariant holds again.
  * `C12_fine_sessions`: … which is a run of the Spec cursor / the Spec map's answer; the thread
    executed exactly as many critical sections as when run alone; capacity, id counter and files are
    unchanged and the capacity bound is kept.
  * `C12_fine_critical_sections_ok`: every critical section executed along ANY schedule (complete or
    not) returns `ok` with the true contents of a data block: no error and no unwinding while the lock
    is held, hence no poisoned lock.
  * `C12_fine_progress`: there is no blocking in this semantics (a critical section is one atomic
    step), every unfinished thread is enabled; every schedule is at most as long as the total number
    of critical sections of the operations run alone, can be continued to a complete schedule, and a
    complete schedule has exactly that length; complete schedules exist.
-/
namespace Sst
open Spec Fine

/-- the program view IS the model: executed alone (all its critical sections at once), the program of
    an operation is the monadic operation of Model/Table.lean, as a function on worlds -/
theorem C12_fine_program_is_model :
    (∀ (t : Table) (k : Bytes), (t.getP k).run = t.get k)
      ∧ (∀ (it : TableIter) (op : IterOp), (it.callP op).run = it.call op)
      ∧ (∀ (it : TableIter) (ops : List IterOp), (it.runP ops).run = it.run ops)
      ∧ (∀ j : Job, j.prog.run = j.alone) :=
  ⟨Table.run_getP, TableIter.run_callP, fun it ops => TableIter.run_runP ops it, Job.run_prog⟩

/-- a thread's program makes a request (`rb`) exactly for `Table::read_block`; what `Prog.run` and the
    scheduler's step do with it is the same function `Table.readBlock` of the model -/
theorem C12_fine_step_is_readBlock {α : Type} (t : Table) (h : BlockHandle) (k : Res Bytes → Prog α)
    (w : World) (ths : List (Prog α)) (i : Nat) (hi : ths[i]? = some (.rb t h k)) :
    (Prog.rb t h k).run w = (k (t.readBlock h w).2).run (t.readBlock h w).1
      ∧ Cfg.step ⟨w, ths⟩ i = some ⟨(t.readBlock h w).1, ths.set i (k (t.readBlock h w).2)⟩ := by
  refine ⟨rfl, ?_⟩
  unfold Cfg.step
  simp only [hi]

section
variable (cls : List CS.Client) (hok : ∀ c ∈ cls, c.OK) (hids : CS.IdsDistinct cls)
  (jobs : List Job) (hjobs : ∀ j ∈ jobs, j.OK cls)
  (w0 : World) (hw0 : ∀ c ∈ cls, WorldOK w0 c.tb c.t)
include hok hids hjobs hw0

/-- C12, fine-grained, with the Spec: `cls` are the tables opened on one shared cache, thread `i`
    executes `jobs[i]` (one iterator call / a session of calls on one iterator / a lookup). For EVERY
    schedule of critical sections that runs all threads to completion: thread `i` has returned `ok out`
    where `out` is what its operation returns when run alone, atomically, in the initial world
    (`Job.alone`, the monadic model); `out` conforms to the Spec (a step / run of the Spec cursor over
    the entries of ITS table along ITS calls; the Spec map's answer); the thread executed as many
    critical sections as alone; every table is `WorldOK` again; files, capacity, id counter unchanged,
    capacity bound kept. -/
theorem C12_fine_sessions (sched : List Nat) (c' : Cfg JobOut)
    (hex : Cfg.exec ⟨w0, jobs.map Job.prog⟩ sched = some c') (hdone : c'.done) :
    (∀ (i : Nat) (j : Job), jobs[i]? = some j → ∃ out,
        c'.threads[i]? = some (.ret (.ok out))
          ∧ (j.alone w0).2 = .ok out
          ∧ j.Spec out
          ∧ sched.count i = j.prog.steps w0)
      ∧ (∀ c ∈ cls, WorldOK c'.world c.tb c.t)
      ∧ c'.world.files = w0.files
      ∧ c'.world.cache.cap = w0.cache.cap ∧ c'.world.cache.nextId = w0.cache.nextId
      ∧ (1 ≤ w0.cache.cap → w0.cache.count ≤ w0.cache.cap → c'.world.cache.count ≤ c'.world.cache.cap) := by
  obtain ⟨hinv, hk, hlen, _, hall⟩ :=
    exec_sound cls hok hids (jobs.map Job.prog) (jobs_threads cls hok jobs hjobs) w0 hw0 sched c' hex
  refine ⟨?_, hinv, hk.files, hk.cap, hk.nextId, hk.bound⟩
  intro i j hj
  have hp : (jobs.map Job.prog)[i]? = some j.prog := by rw [List.getElem?_map, hj]; rfl
  obtain ⟨_, p', hp', hfin⟩ := hall i _ hp
  obtain ⟨hret, hcount⟩ := hfin (hdone p' (List.mem_of_getElem? hp'))
  obtain ⟨w', out, halone, hspec⟩ := Job.alone_ok cls hok j (hjobs j (List.mem_of_getElem? hj)) w0 hw0
  rw [Job.run_prog, halone] at hret
  exact ⟨out, by rw [hp', hret], by rw [halone], hspec, hcount⟩

/-- C12, fine-grained: under ANY interleaving of the critical sections of any number of concurrently
    executing operations, each operation returns exactly what it returns when run alone.

    Thread `i`'s final program is `ret` of the result of the atomic model in the INITIAL world:
    `(it.call op w0).2` for an iterator call, `(it.run ops w0).2` for a session, `(tb.get k w0).2` for
    a lookup (packed by `Job.alone`). That result is `ok`: not a panic, not `diverge`, not `LockError`
    (nor any other error). The world invariant holds again. -/
theorem C12_fine_result_independent (sched : List Nat) (c' : Cfg JobOut)
    (hex : Cfg.exec ⟨w0, jobs.map Job.prog⟩ sched = some c') (hdone : c'.done) :
    (∀ (i : Nat) (j : Job), jobs[i]? = some j →
        c'.threads[i]? = some (.ret (j.alone w0).2)
          ∧ (match j with
             | .call _ it op => ∃ it' out, (it.call op w0).2 = .ok (it', out)
                 ∧ (j.alone w0).2 = .ok (.call it' out)
             | .session _ it ops => ∃ it' outs, (it.run ops w0).2 = .ok (it', outs)
                 ∧ (j.alone w0).2 = .ok (.session it' outs)
             | .get c k => (c.tb.get k w0).2 = .ok (Spec.lookup c.cmp c.t.entries k)
                 ∧ (j.alone w0).2 = .ok (.got (Spec.lookup c.cmp c.t.entries k)))
          ∧ (∀ site, (j.alone w0).2 ≠ .panic site) ∧ (j.alone w0).2 ≠ .diverge
          ∧ (j.alone w0).2 ≠ .err .lockError)
      ∧ (∀ c ∈ cls, WorldOK c'.world c.tb c.t) := by
  obtain ⟨hthreads, hinv, _⟩ := C12_fine_sessions cls hok hids jobs hjobs w0 hw0 sched c' hex hdone
  refine ⟨?_, hinv⟩
  intro i j hj
  obtain ⟨out, hth, halone, _, _⟩ := hthreads i j hj
  have hjok := hjobs j (List.mem_of_getElem? hj)
  refine ⟨by rw [hth, halone], ?_, ?_, ?_, ?_⟩
  · cases j with
    | call c it op =>
      obtain ⟨hc, pos, hs⟩ := hjok
      have ho := hok c hc
      obtain ⟨w1, it', pos', o, hcall, _⟩ :=
        call_ok c.cmp ho.lawful c.p c.t ho.wf c.fv c.tb ho.opened op w0 (hw0 c hc) it pos hs
      refine ⟨it', o, by rw [hcall], ?_⟩
      show ((it.call op >>= fun r => pure (JobOut.call r.1 r.2)) w0).2 = _
      rw [TI.bind_ok hcall]; rfl
    | session c it ops =>
      obtain ⟨hc, pos, hs⟩ := hjok
      have ho := hok c hc
      obtain ⟨w1, it', pos', outs, hrun, _⟩ :=
        reader_history c.cmp ho.lawful c.p c.t ho.wf c.fv c.tb ho.opened ops w0 (hw0 c hc) it pos hs
      refine ⟨it', outs, by rw [hrun], ?_⟩
      show ((it.run ops >>= fun r => pure (JobOut.session r.1 r.2)) w0).2 = _
      rw [TI.bind_ok hrun]; rfl
    | get c k =>
      obtain ⟨hc, hg⟩ := hjok
      have ho := hok c hc
      obtain ⟨w1, hget, _⟩ :=
        get_ok c.cmp ho.lawful c.p c.t ho.wf c.fv c.tb ho.opened hg.sound hg.fwf w0 (hw0 c hc) k
      refine ⟨by rw [hget], ?_⟩
      show ((c.tb.get k >>= fun v => pure (JobOut.got v)) w0).2 = _
      rw [TI.bind_ok hget]; rfl
  · intro site h; rw [halone] at h; cases h
  · intro h; rw [halone] at h; cases h
  · intro h; rw [halone] at h; cases h

/-- no error and no unwinding under the lock: along ANY schedule (complete or not), the critical
    section a scheduled thread executes next is `read_block` of a data block `d` and returns `ok` with
    `d`'s contents. (The lock is therefore never poisoned, and `LockError` — which arises only from a
    poisoned lock, `C12_lock_error_is_poison` — cannot occur.) -/
theorem C12_fine_critical_sections_ok (pre : List Nat) (i : Nat) (c1 c2 : Cfg JobOut)
    (hpre : Cfg.exec ⟨w0, jobs.map Job.prog⟩ pre = some c1) (hs : c1.step i = some c2) :
    ∃ t h k, ∃ d : DBlock, c1.threads[i]? = some (.rb t h k)
      ∧ (t.readBlock h c1.world).2 = .ok d.blk.contents
      ∧ c2 = ⟨(t.readBlock h c1.world).1, c1.threads.set i (k (.ok d.blk.contents))⟩ := by
  obtain ⟨t, h, k, d, hth, hr⟩ :=
    exec_step_ok cls hok hids (jobs.map Job.prog) (jobs_threads cls hok jobs hjobs) w0 hw0 pre i c1 c2 hpre hs
  refine ⟨t, h, k, d, hth, hr, ?_⟩
  unfold Cfg.step at hs
  rw [hth] at hs
  cases hs
  rw [hr]

/-- progress and termination. There is no blocking in this semantics — a critical section is ONE
    atomic step of the scheduler, the lock is free between steps — so a thread that has not returned is
    always enabled (first part, for arbitrary configurations). For the jobs above, every schedule
    (i) schedules thread `i` at most as often as the operation has critical sections when run alone,
    (ii) is at most as long as the total number `Σ_i steps_i` of those, (iii) can be continued to a
    complete schedule, and (iv) is complete exactly when it has that length; complete schedules
    exist. -/
theorem C12_fine_progress :
    (∀ (c : Cfg JobOut) (i : Nat) (p : Prog JobOut), c.threads[i]? = some p → p.isDone = false →
        ∃ c', c.step i = some c')
      ∧ (∀ (c : Cfg JobOut), ¬ c.done → ∃ i c', c.step i = some c')
      ∧ (∀ (sched : List Nat) (c' : Cfg JobOut), Cfg.exec ⟨w0, jobs.map Job.prog⟩ sched = some c' →
          (∀ i j, jobs[i]? = some j → sched.count i ≤ j.prog.steps w0)
            ∧ sched.length ≤ sumTo (fun i => ((jobs[i]?).map (fun j => j.prog.steps w0)).getD 0) jobs.length
            ∧ (∃ rest c'', Cfg.exec ⟨w0, jobs.map Job.prog⟩ (sched ++ rest) = some c'' ∧ c''.done)
            ∧ (c'.done ↔
                sched.length = sumTo (fun i => ((jobs[i]?).map (fun j => j.prog.steps w0)).getD 0) jobs.length))
      ∧ (∃ sched c', Cfg.exec ⟨w0, jobs.map Job.prog⟩ sched = some c' ∧ c'.done) := by
  have hth := jobs_threads cls hok jobs hjobs
  have hsum : sumTo (aloneCnt (jobs.map Job.prog) w0) (jobs.map Job.prog).length
      = sumTo (fun i => ((jobs[i]?).map (fun j => j.prog.steps w0)).getD 0) jobs.length := by
    rw [List.length_map]
    apply sumTo_congr
    intro i _
    simp only [aloneCnt, List.getElem?_map]
    cases jobs[i]? <;> rfl
  refine ⟨fun c i p hp hnd => c.step_enabled i p hp hnd, fun c hc => c.progress hc, ?_,
    complete_sched_exists cls hok hids _ hth w0 hw0⟩
  intro sched c' hex
  obtain ⟨_, _, _, _, hall⟩ := exec_sound cls hok hids _ hth w0 hw0 sched c' hex
  obtain ⟨hle, heq⟩ := exec_length cls hok hids _ hth w0 hw0 sched c' hex
  rw [hsum] at hle heq
  refine ⟨?_, hle, sched_extends cls hok hids _ hth w0 hw0 sched c' hex, heq, ?_⟩
  · intro i j hj
    have hp : (jobs.map Job.prog)[i]? = some j.prog := by rw [List.getElem?_map, hj]; rfl
    exact (hall i _ hp).1
  · -- a schedule of full length is complete: continue it to a complete one; the continuation is empty
    intro hlen
    obtain ⟨rest, c'', hex', hd''⟩ := sched_extends cls hok hids _ hth w0 hw0 sched c' hex
    obtain ⟨_, heq'⟩ := exec_length cls hok hids _ hth w0 hw0 (sched ++ rest) c'' hex'
    have := heq' hd''
    rw [hsum, List.length_append] at this
    have hrest : rest = [] := List.eq_nil_of_length_eq_zero (by omega)
    subst hrest
    rw [List.append_nil, hex] at hex'
    cases hex'
    exact hd''

end

/-- why the interleaving cannot show: the result of an operation is the same function of the operation
    in EVERY world satisfying the invariant (any cache contents, capacity, logs) — including sessions
    with a `prev` issued at an invalid position, which `C10_invisible` had to exclude -/
theorem C12_fine_world_independent (cls : List CS.Client) (hok : ∀ c ∈ cls, c.OK)
    (hids : CS.IdsDistinct cls) (j : Job) (hj : j.OK cls) (w1 w2 : World)
    (hw1 : ∀ c ∈ cls, WorldOK w1 c.tb c.t) (hw2 : ∀ c ∈ cls, WorldOK w2 c.tb c.t) :
    (j.alone w1).2 = (j.alone w2).2 ∧ j.prog.steps w1 = j.prog.steps w2 := by
  obtain ⟨r, n, hr⟩ := Job.runs cls hok j hj
  obtain ⟨h1, h1', _⟩ := runs_sound cls hok hids (Job.client_mem hj) hr w1 hw1
  obtain ⟨h2, h2', _⟩ := runs_sound cls hok hids (Job.client_mem hj) hr w2 hw2
  rw [Job.run_prog] at h1 h2
  exact ⟨by rw [h1, h2], by rw [h1', h2']⟩

/-! ### non-vacuity -/

/-- a concrete instance: the table built from three entries (perfect sink; the build is evaluated by
    the kernel) is opened TWICE on one world with an empty cache of capacity 1 — two handles `tb1`,
    `tb2` with different cache ids on the same image `t` — and a new iterator is made on each -/
theorem C12_fine_witness :
    ∃ (t : TableImg) (fv : Option Bytes) (tb1 tb2 : Table) (it1 it2 : TableIter) (w0 : World),
      (CS.Client.mk defaultCmp noFilterPolicy t fv tb1).OK
        ∧ (CS.Client.mk defaultCmp noFilterPolicy t fv tb2).OK
        ∧ (CS.Client.mk defaultCmp noFilterPolicy t fv tb2).GetOK
        ∧ tb1.cacheId ≠ tb2.cacheId
        ∧ WorldOK w0 tb1 t ∧ WorldOK w0 tb2 t
        ∧ SimT t tb1 it1 none ∧ SimT t tb2 it2 none
        ∧ t.entries = TableBuilder.exampleEntries
        ∧ w0.cache.cap = 1 := by
  let opt := TableBuilder.exampleOpts 20 noFilterPolicy
  have hokw : WOptsOK opt := wOptsOK_default 20 2 (by decide) noFilterPolicy (fun _ _ _ _ => rfl) id
  obtain ⟨t0, n, hb⟩ : ∃ t0 n, TableBuilder.build opt {} TableBuilder.exampleEntries = (t0, .ok n) :=
    TableBuilder.exists_ok_of_isOk _ (by decide +kernel)
  have hn : n < 2 ^ 32 := by
    have h : (match (TableBuilder.build opt {} TableBuilder.exampleEntries).2 with
              | .ok n => decide (n < 2 ^ 32) | _ => false) = true := by decide +kernel
    rw [hb] at h
    simpa using h
  have hsz : opt.compression = 1 → sizeBound opt TableBuilder.exampleEntries < 2 ^ 32 := by
    intro h; cases h
  obtain ⟨_, _, t, himg, himglen, twf, hent, ⟨fv, hfv, hsound, _⟩, _⟩ :=
    built_image opt hokw noFilterPolicy (readerPolicyOK_refl _) [] TableBuilder.exampleEntries t0 n hb hn hsz
  have hc : defaultCmp.Lawful := hokw.lawful
  have twf' : t.WF defaultCmp := twf
  -- the world: file 0 holds the image, empty cache of capacity 1
  let w : World := { files := [t.img], cache := { cap := 1 } }
  have hcw : CleanWorld w 0 t.img := ⟨rfl, rfl⟩
  -- first open
  obtain ⟨w1, tb1, _, hop1, hfile1, hid1, hcw1, hf1, hent1, hcap1, hnid1, _⟩ :=
    open_ok defaultCmp hc noFilterPolicy t twf' fv hfv w 0 hcw
  -- second open, on the world the first one left
  obtain ⟨w2, tb2, _, hop2, hfile2, hid2, hcw2, hf2, hent2, hcap2, hnid2, _⟩ :=
    open_ok defaultCmp hc noFilterPolicy t twf' fv hfv w1 0 hcw1
  have hempty2 : w2.cache.entries = [] := by rw [hent2, hent1]
  have hw2a : WorldOK w2 tb1 t :=
    ⟨by rw [hfile1]; exact hcw2, fun off c hm => by rw [hempty2] at hm; cases hm⟩
  have hw2b : WorldOK w2 tb2 t :=
    ⟨by rw [hfile2]; exact hcw2, fun off c hm => by rw [hempty2] at hm; cases hm⟩
  have hne : tb1.cacheId ≠ tb2.cacheId := by
    rw [hid1, hid2, hnid1]; exact C10_ids_distinct _
  obtain ⟨it1, _, hs1⟩ := iter_new_ok defaultCmp hc noFilterPolicy t twf' fv tb1 hop1 w2
  obtain ⟨it2, _, hs2⟩ := iter_new_ok defaultCmp hc noFilterPolicy t twf' fv tb2 hop2 w2
  exact ⟨t, fv, tb1, tb2, it1, it2, w2, ⟨hc, twf', hop1⟩, ⟨hc, twf', hop2⟩,
    ⟨hsound, BR.filterView_wf hfv⟩, hne, hw2a, hw2b, hs1, hs2, hent, by rw [hcap2, hcap1]⟩

/-- the hypotheses of the theorems above are satisfiable: two table handles sharing a cache of capacity
    1, three threads — a full scan (a session of 4 `next` calls) through the first handle, a lookup and
    a seek through the second -/
theorem C12_fine_nonvacuous :
    ∃ (cls : List CS.Client) (jobs : List Job) (w0 : World),
      cls.length = 2 ∧ jobs.length = 3
        ∧ (∀ c ∈ cls, c.OK) ∧ CS.IdsDistinct cls ∧ (∀ j ∈ jobs, j.OK cls)
        ∧ (∀ c ∈ cls, WorldOK w0 c.tb c.t) ∧ w0.cache.cap = 1 := by
  obtain ⟨t, fv, tb1, tb2, it1, it2, w0, hok1, hok2, hg2, hne, hw1, hw2, hs1, hs2, hent, hcap⟩ :=
    C12_fine_witness
  refine ⟨[⟨defaultCmp, noFilterPolicy, t, fv, tb1⟩, ⟨defaultCmp, noFilterPolicy, t, fv, tb2⟩],
    [.session ⟨defaultCmp, noFilterPolicy, t, fv, tb1⟩ it1 (List.replicate 4 IterOp.next),
     .get ⟨defaultCmp, noFilterPolicy, t, fv, tb2⟩ [2],
     .call ⟨defaultCmp, noFilterPolicy, t, fv, tb2⟩ it2 (.seek [3])], w0, rfl, rfl, ?_, ?_, ?_, ?_, hcap⟩
  · intro c hcm
    simp only [List.mem_cons, List.mem_nil_iff, or_false] at hcm
    rcases hcm with rfl | rfl
    · exact hok1
    · exact hok2
  · intro a ha b hb' hab
    simp only [List.mem_cons, List.mem_nil_iff, or_false] at ha hb'
    rcases ha with rfl | rfl <;> rcases hb' with rfl | rfl
    · exact ⟨rfl, rfl⟩
    · exact absurd hab hne
    · exact absurd hab.symm hne
    · exact ⟨rfl, rfl⟩
  · intro j hj
    simp only [List.mem_cons, List.mem_nil_iff, or_false] at hj
    rcases hj with rfl | rfl | rfl
    · exact ⟨List.mem_cons_self, none, hs1⟩
    · exact ⟨List.mem_cons_of_mem _ List.mem_cons_self, hg2⟩
    · exact ⟨List.mem_cons_of_mem _ List.mem_cons_self, none, hs2⟩
  · intro c hcm
    simp only [List.mem_cons, List.mem_nil_iff, or_false] at hcm
    rcases hcm with rfl | rfl
    · exact hw1
    · exact hw2

/-- … and on that instance the conclusion reads: complete schedules exist, and under EVERY complete
    schedule of the critical sections of the three threads the scan has returned the three entries
    and then `none`, and the lookup of key `[2]` has returned `[20]` -/
theorem C12_fine_instance :
    ∃ (jobs : List Job) (w0 : World),
      (∃ sched c', Cfg.exec ⟨w0, jobs.map Job.prog⟩ sched = some c' ∧ c'.done)
      ∧ ∀ (sched : List Nat) (c' : Cfg JobOut),
          Cfg.exec ⟨w0, jobs.map Job.prog⟩ sched = some c' → c'.done →
          (∃ it', c'.threads[0]? = some (.ret (.ok (.session it'
              [.entry (some ([1], [10])), .entry (some ([2], [20])), .entry (some ([3, 5], [30])),
               .entry none]))))
            ∧ c'.threads[1]? = some (.ret (.ok (.got (some [20])))) := by
  obtain ⟨t, fv, tb1, tb2, it1, it2, w0, hok1, hok2, hg2, hne, hw1, hw2, hs1, hs2, hent, hcap⟩ :=
    C12_fine_witness
  let c1 : CS.Client := ⟨defaultCmp, noFilterPolicy, t, fv, tb1⟩
  let c2 : CS.Client := ⟨defaultCmp, noFilterPolicy, t, fv, tb2⟩
  let cls : List CS.Client := [c1, c2]
  let jobs : List Job :=
    [.session c1 it1 (List.replicate 4 IterOp.next), .get c2 [2], .call c2 it2 (.seek [3])]
  have hok : ∀ c ∈ cls, c.OK := by
    intro c hcm
    simp only [cls, List.mem_cons, List.mem_nil_iff, or_false] at hcm
    rcases hcm with rfl | rfl
    · exact hok1
    · exact hok2
  have hids : CS.IdsDistinct cls := by
    intro a ha b hb' hab
    simp only [cls, List.mem_cons, List.mem_nil_iff, or_false] at ha hb'
    rcases ha with rfl | rfl <;> rcases hb' with rfl | rfl
    · exact ⟨rfl, rfl⟩
    · exact absurd hab hne
    · exact absurd hab.symm hne
    · exact ⟨rfl, rfl⟩
  have hjobs : ∀ j ∈ jobs, j.OK cls := by
    intro j hj
    simp only [jobs, List.mem_cons, List.mem_nil_iff, or_false] at hj
    rcases hj with rfl | rfl | rfl
    · exact ⟨List.mem_cons_self, none, hs1⟩
    · exact ⟨List.mem_cons_of_mem _ List.mem_cons_self, hg2⟩
    · exact ⟨List.mem_cons_of_mem _ List.mem_cons_self, none, hs2⟩
  have hw0 : ∀ c ∈ cls, WorldOK w0 c.tb c.t := by
    intro c hcm
    simp only [cls, List.mem_cons, List.mem_nil_iff, or_false] at hcm
    rcases hcm with rfl | rfl
    · exact hw1
    · exact hw2
  refine ⟨jobs, w0, (C12_fine_progress cls hok hids jobs hjobs w0 hw0).2.2.2, ?_⟩
  intro sched c' hex hdone
  obtain ⟨hth, _⟩ := C12_fine_sessions cls hok hids jobs hjobs w0 hw0 sched c' hex hdone
  constructor
  · obtain ⟨out, h0, _, hspec, _⟩ := hth 0 (.session c1 it1 (List.replicate 4 IterOp.next)) rfl
    cases out with
    | session it' outs =>
      obtain ⟨pos', hcr, _⟩ := hspec none hs1
      have hcr' : CursorRun defaultCmp t.entries none
          (List.replicate (t.entries.length + 1) IterOp.next) (t.flatPos pos') outs := by
        have hl : t.entries.length + 1 = 4 := by rw [hent]; rfl
        rw [hl]; exact hcr
      have houts := cursorRun_scan defaultCmp t.entries _ outs hcr'
      rw [hent] at houts
      exact ⟨it', by rw [h0, houts]; rfl⟩
    | call _ _ => exact hspec.elim
    | got _ => exact hspec.elim
  · obtain ⟨out, h1, _, hspec, _⟩ := hth 1 (.get c2 [2]) rfl
    cases out with
    | got v =>
      have hv : v = Spec.lookup defaultCmp t.entries [2] := hspec
      rw [hent] at hv
      have : Spec.lookup defaultCmp TableBuilder.exampleEntries [2] = some [20] := by decide
      rw [h1, hv, this]
    | call _ _ => exact hspec.elim
    | session _ _ => exact hspec.elim

end Sst

#print axioms Sst.C12_fine_program_is_model
#print axioms Sst.C12_fine_step_is_readBlock
#print axioms Sst.C12_fine_sessions
#print axioms Sst.C12_fine_result_independent
#print axioms Sst.C12_fine_critical_sections_ok
#print axioms Sst.C12_fine_progress
#print axioms Sst.C12_fine_world_independent
#print axioms Sst.C12_fine_witness
#print axioms Sst.C12_fine_nonvacuous
#print axioms Sst.C12_fine_instance
