import SstModel.Generated.Consts
import SstModel.Spec.Format
import SstModel.Model.Filter
import SstModel.Model.Status
/-
  Obligations tying the constants regenerated from /repo/src on every run (Generated/Consts.lean) to
  the constants of the format specification (written out independently in Spec/Format.lean and here).
  A change of any of these constants in the Rust source makes the corresponding theorem fail.
-/
namespace Sst.ConstsTie
open Sst

theorem magic_eq : Consts.magicFooterEncoded = Spec.Format.magic := by decide
theorem footer_lengths : Consts.footerLength = 40 ∧ Consts.fullFooterLength = Spec.Format.footerLen := by decide
theorem trailer_length :
    Consts.tableBlockCompressLen + Consts.tableBlockCksumLen = Spec.Format.trailerLen
      ∧ Consts.tableBlockCompressLen = 1 := by decide
theorem mask_consts :
    Consts.maskDelta = Spec.Format.maskDelta ∧ Consts.maskShr = 15 ∧ Consts.maskShl = 17
      ∧ Consts.unmaskShr = 17 ∧ Consts.unmaskShl = 15 := by decide
theorem compression_tags : Consts.compressionNone = 0 ∧ Consts.compressionSnappy = 1 := by decide
theorem filter_base : Consts.filterBaseLog2 = 11 := by decide
theorem bloom_consts :
    Consts.bloomSeed = 0xbc9f1d34 ∧ Consts.bloomM = 0xc6a4a793 ∧ Consts.bloomR = 24
      ∧ Consts.bloomMidShift = 16 ∧ Consts.bloomDeltaShr = 17 ∧ Consts.bloomDeltaShl = 15
      ∧ Consts.bloomMinBits = 64 ∧ Consts.bloomKMin = 1 ∧ Consts.bloomKMax = 30 ∧ Consts.bloomKNum = 69 := by
  decide
/-- since fix D19 the crate computes the number of filter bits in `u64` (it was `u32`) -/
theorem bloom_bits_width : Consts.bloomBitsWidth = 64 := by decide
/-- the default policy (10 bits per key) probes 6 bits per key -/
theorem default_bloom_k : Consts.defaultBitsPerKey = 10 ∧ Bloom.kOf Consts.defaultBitsPerKey = 6 := by decide
/-- the plausibility bound of fix D20 (`SNAPPY_MAX_EXPANSION` in table_block.rs); at least the proved
    maximal expansion of the decoder (22, `Snappy.decode_length_le`), so the guard rejects no valid stream -/
theorem snappy_max_expansion : Consts.snappyMaxExpansion = 32 := by decide
theorem display_writes_err : Consts.displayWritesErr = true := by decide

/-- the status code list of error.rs is the model's, in order -/
theorem status_codes : Consts.statusCodes = Code.all.map Code.name := by decide
/-- on-disk names (LevelDB's) and defaults of options.rs -/
theorem names_and_defaults :
    Consts.bloomName = "leveldb.BuiltinBloomFilter2" ∧ Consts.noFilterName = "_"
      ∧ Consts.defaultCmpId = "leveldb.BytewiseComparator" ∧ Consts.defaultCompression = "CompressionNone"
      ∧ Consts.defaultBlockSize = 4096 ∧ Consts.defaultRestartInterval = 16 := by decide
theorem policy_names : (Bloom.policy 10).name = Consts.bloomName ∧ noFilterPolicy.name = Consts.noFilterName :=
  ⟨rfl, rfl⟩

/-- CRC-32C check value of the catalogue ("123456789" ↦ 0xE3069283) -/
theorem crc_check_value : crc32c [0x31,0x32,0x33,0x34,0x35,0x36,0x37,0x38,0x39] = 0xE3069283 := by decide +kernel
/-- LevelDB's `crc32c::Mask` on a known value: Mask(0) = kMaskDelta -/
theorem mask_zero : Spec.Format.mask 0 = 0xa282ead8 := by decide

/-- the reader treats probe-count bytes above the writer's maximum as "may match" (model: literal 30) -/
theorem bloom_reader_kmax : Consts.bloomReaderKMax = 30 ∧ Consts.bloomReaderKMax = Consts.bloomKMax := by decide

end Sst.ConstsTie
