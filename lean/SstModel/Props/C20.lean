import SstModel.Model.Status
/-
  C20 — Every error value can be displayed and carries its code and message.

  `Display::fmt` is modelled by `Status.display`, which is defined only while the regenerated constant
  `Consts.displayWritesErr` records that the source writes the stored text (the unfixed
  `fmt.write_str(&self.to_string())` is not a terminating definition at all: it calls itself).
-/
namespace Sst

/-- formatting terminates (it is a total function that yields a text), and the text contains the
    code name and the message -/
theorem C20_display (c : Code) (m : String) :
    ∃ d, (Status.new c m).display = some d
      ∧ (∃ a b, d = a ++ c.name ++ b) ∧ (∃ a b, d = a ++ m ++ b) := by
  have hd : Consts.displayWritesErr = true := by decide
  refine ⟨(Status.new c m).err, by simp [Status.display, hd], ?_, ?_⟩
  · unfold Status.new
    by_cases h : m.isEmpty
    · exact ⟨"", "", by simp [h]⟩
    · exact ⟨"", ": " ++ m, by simp [h, String.append_assoc]⟩
  · unfold Status.new
    by_cases h : m.isEmpty
    · have : m = "" := by simpa using h
      subst this
      exact ⟨c.name, "", by simp⟩
    · exact ⟨c.name ++ ": ", "", by simp [h, String.append_assoc]⟩

/-- the conversions build their text with `Status.new` (fix D2), hence carry the code name -/
theorem C20_conversions (msg : String) :
    (Status.ofSnap msg).code = .compressionError ∧ (Status.ofSnap msg) = Status.new .compressionError msg
      ∧ Status.ofPoison = Status.new .lockError "lock poisoned" := ⟨rfl, rfl, rfl⟩

/-- every code has a non-empty name, and names are pairwise distinct -/
theorem C20_names_distinct : (Code.all.map Code.name).Nodup ∧ ∀ c ∈ Code.all, c.name ≠ "" := by
  decide

theorem C20_all_codes (c : Code) : c ∈ Code.all := by cases c <;> decide

/-- io::ErrorKind ↦ StatusCode as documented, read off the regenerated table -/
theorem C20_io_table :
    ioKindCode "NotFound" = some .notFound ∧ ioKindCode "InvalidData" = some .corruption
      ∧ ioKindCode "InvalidInput" = some .invalidArgument
      ∧ ioKindCode "PermissionDenied" = some .permissionDenied
      ∧ ioKindCode "Other" = some .ioError ∧ ioKindCode "WriteZero" = some .ioError
      ∧ ioKindCode "Interrupted" = some .ioError ∧ ioKindCode "UnexpectedEof" = some .ioError := by
  decide

/-- every kind that is not one of the four listed ones maps to IOError -/
theorem C20_io_default (kind : String)
    (h : kind ∉ ["NotFound", "InvalidData", "InvalidInput", "PermissionDenied"]) :
    ioKindCode kind = some .ioError := by
  simp only [List.mem_cons, List.not_mem_nil, or_false, not_or] at h
  obtain ⟨h1, h2, h3, h4⟩ := h
  have : Consts.ioErrorTable.find? (·.1 = kind) = none := by
    simp [Consts.ioErrorTable, List.find?, Ne.symm h1, Ne.symm h2, Ne.symm h3, Ne.symm h4]
  simp only [ioKindCode, this]
  decide

-- non-vacuity (tests): a concrete error is displayed as expected
example : (Status.new .notFound "x").display = some "NotFound: x" := by decide
example : (Status.new .corruption "").display = some "Corruption" := by decide

end Sst
