import SstModel.Lemmas.Sched
import SstModel.Model.Status
import SstModel.Props.C08
import SstModel.Props.C10
/-
  C12 — Sharing between threads: no deadlock, no lock error, every linearisation is a Spec run.

  In the crate the only shared mutable state is the block cache behind ONE `RwLock`. Every operation
  that touches it (`Table::read_block`; the id allocation of `Table::new`) takes the write lock, runs a
  terminating critical section that acquires no other lock and does not re-acquire this one, and
  releases it. A poisoned lock — the only source of `StatusCode::LockError` (`From<PoisonError>`) —
  arises only from a panic while the lock is held.

  What a model can carry, in three parts:

  (1) `Sst.Sched` (Model/Sched.lean): N threads over one non-reentrant lock. For programs that respect
      the lock discipline (`Disciplined`: acquire/release alternate, ending released — the shape of
      every operation of the crate) the invariant `Inv` is established (`C12_init`) and preserved
      (`C12_step`), some thread can always move (`C12_progress`: no deadlock), and EVERY schedule that
      only picks enabled threads finishes all programs after exactly `measure s` = (number of
      remaining instructions) steps with the lock free (`C12_terminates`); such schedules exist
      (`C12_schedule_exists`). The model can express the failures: a re-entrant acquire is not
      disciplined and deadlocks (examples at the end).

  (2) Since the lock serialises the critical sections, an execution is a linearisation of lock-protected
      steps. For EVERY interleaving of client operations on tables sharing the cache, each client sees
      exactly a Spec cursor run over its own table (`C12_linearisations` = `C10_interleaving`,
      `C12_linearisations_invisible` = `C10_interleaving_invisible`).

  (3) No step panics — in `C10_interleaving`'s setting every operation returns `ok` (`C12_no_lock_error`),
      and in ANY world with a validated cache the two critical sections return `ok`/`err`, never a
      panic, and terminate (`C12_critical_sections_never_panic`, from C08) — hence the lock is never
      poisoned and no operation returns `LockError`.
-/
namespace Sst
open Sst.Sched

/-! ### (1) the lock: no deadlock, termination -/

/-- threads running disciplined programs start in the invariant -/
theorem C12_init (progs : List (List Instr)) (h : ∀ p ∈ progs, Disciplined p = true) :
    Inv { threads := progs.map Thread.mk, holder := none } :=
  init_inv progs h

/-- a step of an enabled thread keeps the invariant and executes exactly one instruction -/
theorem C12_step (s : State) (hinv : Inv s) (i : Nat) (he : enabled s i = true) :
    Inv (stepThread s i) ∧ measure (stepThread s i) + 1 = measure s :=
  ⟨step_inv s hinv i he, step_measure s i he⟩

/-- no deadlock: while some thread is not finished, some thread can move -/
theorem C12_progress (s : State) (hinv : Inv s) (hnot : ∃ t ∈ s.threads, t.prog ≠ []) :
    ∃ i, enabled s i = true :=
  progress s hinv hnot

/-- mutual exclusion: at most one thread is inside a critical section, and it is the holder -/
theorem C12_mutex (s : State) (hinv : Inv s) (i j : Nat) (ti tj : Thread)
    (hi : s.threads[i]? = some ti) (hj : s.threads[j]? = some tj)
    (hii : disc true ti.prog = true) (hjj : disc true tj.prog = true) :
    i = j ∧ s.holder = some i :=
  mutex s hinv i j ti tj hi hj hii hjj

/-- termination under EVERY scheduler: along any schedule that only picks enabled threads the
    invariant is kept and each step executes one instruction (so no such schedule is longer than
    `measure s`); a shorter one can always be continued; one of length `measure s` has finished all
    programs and left the lock free -/
theorem C12_terminates (s : State) (hinv : Inv s) (sched : List Nat) (hv : ValidSched s sched) :
    Inv (run s sched)
      ∧ measure (run s sched) + sched.length = measure s
      ∧ (sched.length < measure s → ∃ i, ValidSched s (sched ++ [i]))
      ∧ (sched.length = measure s → finished (run s sched) = true ∧ (run s sched).holder = none) := by
  obtain ⟨h1, h2⟩ := run_ok sched s hinv hv
  refine ⟨h1, h2, ?_, ?_⟩
  · intro hlt
    have hnf : finished (run s sched) = false := by
      cases hf : finished (run s sched) with
      | false => rfl
      | true => rw [← measure_eq_zero] at hf; omega
    have hd : ∃ t ∈ (run s sched).threads, t.prog ≠ [] := by
      simp only [finished, List.all_eq_false, List.isEmpty_iff] at hnf
      obtain ⟨t, ht, hne⟩ := hnf
      exact ⟨t, ht, by simpa using hne⟩
    obtain ⟨i, he⟩ := progress _ h1 hd
    exact ⟨i, validSched_append sched s i hv he⟩
  · intro heq
    have hf : finished (run s sched) = true := by rw [← measure_eq_zero]; omega
    exact ⟨hf, finished_holder _ h1 hf⟩

/-- … and complete schedules exist -/
theorem C12_schedule_exists (s : State) (hinv : Inv s) :
    ∃ sched, ValidSched s sched ∧ sched.length = measure s :=
  sched_exists (measure s) s hinv rfl

/-- `deadlocked` (used in the example below) says: nobody can move, somebody is not finished -/
theorem C12_deadlocked_iff (s : State) :
    deadlocked s = true ↔ (∀ i, enabled s i = false) ∧ ∃ t ∈ s.threads, t.prog ≠ [] :=
  deadlocked_iff s

/-- … which never happens under the invariant -/
theorem C12_no_deadlock (s : State) (hinv : Inv s) : deadlocked s = false := by
  cases hd : deadlocked s with
  | false => rfl
  | true =>
    obtain ⟨h1, h2⟩ := (deadlocked_iff s).mp hd
    obtain ⟨i, hi⟩ := progress s hinv h2
    rw [h1 i] at hi; cases hi

/-! ### (2) every linearisation is a Spec run, per client -/

/-- every linearisation of the lock-protected operations of any number of clients (iterator handles,
    lookups) on any number of tables sharing the cache: nothing fails, each handle's outputs are a run
    of the Spec cursor over ITS table along ITS calls alone, lookups return the Spec map's answer, every
    table stays `WorldOK` -/
theorem C12_linearisations (cls : List CS.Client) (hok : ∀ c ∈ cls, c.OK) (hids : CS.IdsDistinct cls)
    (owner : Nat → CS.Client) (hown : ∀ i, owner i ∈ cls) (evs : List CS.Ev)
    (hget : ∀ c k, CS.Ev.get c k ∈ evs → c ∈ cls ∧ c.GetOK)
    (w : World) (hw : ∀ c ∈ cls, WorldOK w c.tb c.t)
    (its : Nat → TableIter) (pos : Nat → Option (Nat × Nat))
    (hsim : ∀ i, SimT (owner i).t (owner i).tb (its i) (pos i)) :
    ∃ (w' : World) (its' : Nat → TableIter) (pos' : Nat → Option (Nat × Nat)) (outs : List CS.EvOut),
      CS.sysRun its evs w = (w', .ok (its', outs))
      ∧ (∀ i, Spec.CursorRun (owner i).cmp (owner i).t.entries ((owner i).t.flatPos (pos i))
                (CS.callsOf i evs) ((owner i).t.flatPos (pos' i)) (CS.outsOf i outs))
      ∧ CS.getsOf outs = CS.specGets evs
      ∧ (∀ c ∈ cls, WorldOK w' c.tb c.t)
      ∧ (∀ i, SimT (owner i).t (owner i).tb (its' i) (pos' i))
      ∧ w'.cache.cap = w.cache.cap ∧ w'.cache.nextId = w.cache.nextId
      ∧ (1 ≤ w.cache.cap → w.cache.count ≤ w.cache.cap → w'.cache.count ≤ w'.cache.cap) :=
  C10_interleaving cls hok hids owner hown evs hget w hw its pos hsim

/-- … and what a handle sees is what the same calls return on a private cache -/
theorem C12_linearisations_invisible (cls : List CS.Client) (hok : ∀ c ∈ cls, c.OK) (hids : CS.IdsDistinct cls)
    (owner : Nat → CS.Client) (hown : ∀ i, owner i ∈ cls) (evs : List CS.Ev)
    (hget : ∀ c k, CS.Ev.get c k ∈ evs → c ∈ cls ∧ c.GetOK)
    (w : World) (hw : ∀ c ∈ cls, WorldOK w c.tb c.t)
    (its : Nat → TableIter) (pos : Nat → Option (Nat × Nat))
    (hsim : ∀ i, SimT (owner i).t (owner i).tb (its i) (pos i))
    (i : Nat) (hn : Spec.NoBlindPrev (owner i).cmp (owner i).t.entries ((owner i).t.flatPos (pos i))
      (CS.callsOf i evs))
    (wp : World) (hwp : WorldOK wp (owner i).tb (owner i).t) :
    ∃ r rp, (CS.sysRun its evs w).2 = .ok r ∧ ((its i).run (CS.callsOf i evs) wp).2 = .ok rp
      ∧ CS.outsOf i r.2 = rp.2 :=
  C10_interleaving_invisible cls hok hids owner hown evs hget w hw its pos hsim i hn wp hwp

/-! ### (3) no panic under the lock, hence no poisoning, hence no `LockError` -/

/-- in `C10_interleaving`'s setting no operation of any linearisation returns `LockError` (or any other
    error), panics or hangs: the whole run returns `ok`, and so does every single event — for every
    split `evs = pre ++ ev :: post`, the run of `pre` returns `ok` and `ev`, issued in the world and
    iterator states `pre` leaves, returns `ok` -/
theorem C12_no_lock_error (cls : List CS.Client) (hok : ∀ c ∈ cls, c.OK) (hids : CS.IdsDistinct cls)
    (owner : Nat → CS.Client) (hown : ∀ i, owner i ∈ cls) (evs : List CS.Ev)
    (hget : ∀ c k, CS.Ev.get c k ∈ evs → c ∈ cls ∧ c.GetOK)
    (w : World) (hw : ∀ c ∈ cls, WorldOK w c.tb c.t)
    (its : Nat → TableIter) (pos : Nat → Option (Nat × Nat))
    (hsim : ∀ i, SimT (owner i).t (owner i).tb (its i) (pos i)) :
    (∃ r, (CS.sysRun its evs w).2 = .ok r)
      ∧ (CS.sysRun its evs w).2 ≠ .err .lockError
      ∧ ∀ pre ev post, evs = pre ++ ev :: post →
          ∃ w1 its1 outs1, CS.sysRun its pre w = (w1, .ok (its1, outs1))
            ∧ (∃ r, (CS.sysStep its1 ev w1).2 = .ok r)
            ∧ (CS.sysStep its1 ev w1).2 ≠ .err .lockError
            ∧ (∀ site, (CS.sysStep its1 ev w1).2 ≠ .panic site)
            ∧ (CS.sysStep its1 ev w1).2 ≠ .diverge := by
  obtain ⟨w', its', pos', outs, hrun, _⟩ :=
    C10_interleaving cls hok hids owner hown evs hget w hw its pos hsim
  refine ⟨⟨_, by rw [hrun]⟩, (by rw [hrun]; intro h; cases h), ?_⟩
  intro pre ev post hsplit
  subst hsplit
  obtain ⟨w1, its1, pos1, outs1, hrun1, _, _, hw1, hsim1, _⟩ :=
    C10_interleaving cls hok hids owner hown pre
      (fun c k h => hget c k (List.mem_append_left _ h)) w hw its pos hsim
  obtain ⟨w2, its2, pos2, out, hstep, _⟩ :=
    CS.sysStep_ok cls hok hids owner hown ev
      (fun c k h => hget c k (List.mem_append_right _ (h ▸ List.mem_cons_self))) w1 hw1 its1 pos1 hsim1
  refine ⟨w1, its1, outs1, hrun1, ⟨_, by rw [hstep]⟩, ?_, ?_, ?_⟩ <;> rw [hstep]
  · intro h; cases h
  · intro site h; cases h
  · intro h; cases h

/-- the two critical sections — `Table::read_block` (cache lookup, file read on a miss, cache insert)
    and `Table::new` (whose last step allocates the cache id) — return `ok` or an error other than a
    panic from ANY world whose cache holds validated blocks (any file contents, any fault schedule,
    any handle, any block handle), and keep the cache validated: no unwinding while the lock is held,
    so the lock is never poisoned. (Termination of the critical section is `NoCrash` excluding
    `diverge`.) -/
theorem C12_critical_sections_never_panic (w : World) (hc : CacheValid w) :
    (∀ (t : Table) (loc : BlockHandle),
        NoCrash (t.readBlock loc w).2 ∧ CacheValid (t.readBlock loc w).1)
      ∧ (∀ (opt : ROpts) (file size : Nat),
        NoCrash (Table.new opt file size w).2 ∧ CacheValid (Table.new opt file size w).1) := by
  refine ⟨fun t loc => ?_, fun opt file size => ?_⟩
  · obtain ⟨h1, h2⟩ := TT.safe_readBlock t loc w hc
    refine ⟨?_, h1⟩
    rcases h2 with ⟨a, ha, _⟩ | ⟨c, hc'⟩
    · exact .inl ⟨a, ha⟩
    · exact .inr ⟨c, hc'⟩
  · have h := C08_open_total opt file size w hc
    exact ⟨h.1, h.2.1⟩

/-- the model never manufactures a `LockError`: the only place the code arises is the conversion from
    a poisoned lock -/
theorem C12_lock_error_is_poison : Status.ofPoison.code = .lockError := rfl

/-! ### examples -/

-- the shape of a lookup: local work, one critical section, local work
example : Disciplined [.step, .acquire, .step, .step, .release, .step] = true := by decide
-- an iterator call crossing a block boundary: two critical sections in a row
example : Disciplined [.acquire, .step, .release, .step, .acquire, .step, .release] = true := by decide
-- a thread that re-acquires the lock it holds (what a re-entrant call would do) is NOT disciplined …
example : Disciplined [.acquire, .step, .acquire, .release, .release] = false := by decide
-- … nor is one that returns while holding the lock, or releases a lock it does not hold
example : Disciplined [.acquire, .step] = false := by decide
example : Disciplined [.release] = false := by decide

-- `deadlockWitness`: thread 0 (re-entrant) holds the lock and asks for it again; thread 1 waits for it
-- it is a deadlock: no thread is enabled although programs remain — the model can express the failure
example : deadlocked deadlockWitness = true := by decide
example : ∀ i, enabled deadlockWitness i = false :=
  ((C12_deadlocked_iff _).mp (by decide)).1
-- and it is reached from the initial state by running the undisciplined program
example : run { threads := [⟨[.acquire, .step, .acquire, .release, .release]⟩, ⟨[.acquire, .step, .release]⟩],
                holder := none } [0, 0] = deadlockWitness := by decide
-- two disciplined threads: every complete schedule has 6 steps; one of them
example : finished (run { threads := [⟨[.acquire, .step, .release]⟩, ⟨[.acquire, .step, .release]⟩],
                          holder := none } [1, 1, 1, 0, 0, 0]) = true := by decide
-- while thread 1 holds the lock thread 0 cannot acquire it
example : enabled (run { threads := [⟨[.acquire, .step, .release]⟩, ⟨[.acquire, .step, .release]⟩],
                         holder := none } [1]) 0 = false := by decide

end Sst

#print axioms Sst.C12_init
#print axioms Sst.C12_step
#print axioms Sst.C12_progress
#print axioms Sst.C12_mutex
#print axioms Sst.C12_terminates
#print axioms Sst.C12_schedule_exists
#print axioms Sst.C12_deadlocked_iff
#print axioms Sst.C12_no_deadlock
#print axioms Sst.C12_linearisations
#print axioms Sst.C12_linearisations_invisible
#print axioms Sst.C12_no_lock_error
#print axioms Sst.C12_critical_sections_never_panic
#print axioms Sst.C12_lock_error_is_poison

/-! ### (4) the cache id allocation: a read-modify-write of a shared counter

  `Table::new` does `let mut c = opt.block_cache.write()?; c.new_cache_id()` with
  `new_cache_id = { self.id += 1; self.id }`. `Sst.SchedS` (Model/Sched.lean) adds the shared counter to
  the lock model: `load` (register := counter) and `store` (counter := register + 1, handing out that
  id). If every `load; store` pair sits inside one critical section (`AllocInside`) the ids handed out
  are pairwise distinct under EVERY schedule (`C12_ids_distinct_any_schedule`); without the lock — or
  under a shared (read) lock, which excludes nobody, or with the pair split over two critical
  sections — two threads obtain the same id (`C12_ids_racy_counterexample`,
  `C12_ids_split_counterexample`) and would then serve each other's cached blocks. -/
namespace Sst

/-- with the allocation inside a critical section, for EVERY schedule that only picks enabled threads,
    from the initial state (counter `c0`, nothing handed out): the ids handed out are pairwise distinct,
    all `> c0`, they are `c0+1, c0+2, …` in the order of the allocations; the counter is `c0` + the
    number of ids handed out, which is the number of `store`s executed; the invariant `AInv` holds -/
theorem C12_ids_distinct_any_schedule (c0 : Nat) (progs : List (List SchedS.Instr))
    (hd : ∀ p ∈ progs, SchedS.Disciplined p = true) (ha : ∀ p ∈ progs, SchedS.AllocInside p = true)
    (sched : List Nat) (hv : SchedS.ValidSched (SchedS.init c0 progs) sched) :
    ((SchedS.run (SchedS.init c0 progs) sched).log.map Prod.snd).Nodup
      ∧ (∀ e ∈ (SchedS.run (SchedS.init c0 progs) sched).log, c0 < e.2)
      ∧ (SchedS.run (SchedS.init c0 progs) sched).counter
          = c0 + (SchedS.run (SchedS.init c0 progs) sched).log.length
      ∧ (SchedS.run (SchedS.init c0 progs) sched).log.map Prod.snd
          = (List.range (SchedS.run (SchedS.init c0 progs) sched).log.length).map (fun n => c0 + 1 + n)
      ∧ (SchedS.run (SchedS.init c0 progs) sched).log.length
            + SchedS.storesLeft (SchedS.run (SchedS.init c0 progs) sched).threads
          = SchedS.storesLeft (SchedS.init c0 progs).threads
      ∧ SchedS.AInv c0 (SchedS.run (SchedS.init c0 progs) sched) := by
  have hinv := SchedS.run_ainv c0 sched _ (SchedS.init_ainv c0 progs hd ha) hv
  refine ⟨?_, ?_, hinv.counter, hinv.ids, ?_, hinv⟩
  · rw [hinv.ids]; exact SchedS.nodup_ids c0 _
  · intro e he
    have : e.2 ∈ (SchedS.run (SchedS.init c0 progs) sched).log.map Prod.snd := List.mem_map_of_mem he
    rw [hinv.ids, List.mem_map] at this
    obtain ⟨n, _, hn⟩ := this
    omega
  · have := SchedS.run_stores sched (SchedS.init c0 progs)
    rw [this]; simp [SchedS.init]

/-- the invariant is inductive (from any state, not only the initial one) -/
theorem C12_alloc_step (c0 : Nat) (s : SchedS.State) (hinv : SchedS.AInv c0 s) (i : Nat)
    (he : SchedS.enabled s i = true) : SchedS.AInv c0 (SchedS.stepThread s i) :=
  SchedS.step_ainv c0 s hinv i he

/-- the seeded bug's shape: `load; store` NOT inside a critical section (the read lock of the seeded
    code excludes nobody, so it is no `acquire` of this lock). The programs respect the lock discipline
    (vacuously) but are not `AllocInside`; the schedule load₀ load₁ store₀ store₁ is valid and hands
    out the id 1 twice -/
theorem C12_ids_racy_counterexample :
    (∀ p ∈ [[SchedS.Instr.load, .store], [.load, .store]], SchedS.Disciplined p = true)
      ∧ (∀ p ∈ [[SchedS.Instr.load, .store], [.load, .store]], SchedS.AllocInside p = false)
      ∧ SchedS.ValidSched (SchedS.init 0 [[.load, .store], [.load, .store]]) [0, 1, 0, 1]
      ∧ (SchedS.run (SchedS.init 0 [[.load, .store], [.load, .store]]) [0, 1, 0, 1]).log = [(0, 1), (1, 1)]
      ∧ ¬ ((SchedS.run (SchedS.init 0 [[.load, .store], [.load, .store]]) [0, 1, 0, 1]).log.map
            Prod.snd).Nodup :=
  ⟨by decide, by decide, ⟨rfl, rfl, rfl, rfl, trivial⟩, by decide, by decide⟩

/-- taking the lock is not enough if the pair is split: `load` in one critical section, `store` in the
    next one. Disciplined, not `AllocInside`, and a valid schedule hands out the id 1 twice -/
theorem C12_ids_split_counterexample :
    (∀ p ∈ [[SchedS.Instr.acquire, .load, .release, .acquire, .store, .release],
            [.acquire, .load, .release, .acquire, .store, .release]], SchedS.Disciplined p = true)
      ∧ SchedS.AllocInside [.acquire, .load, .release, .acquire, .store, .release] = false
      ∧ SchedS.ValidSched
          (SchedS.init 0 [[.acquire, .load, .release, .acquire, .store, .release],
                          [.acquire, .load, .release, .acquire, .store, .release]])
          [0, 0, 0, 1, 1, 1, 0, 0, 0, 1, 1, 1]
      ∧ (SchedS.run
          (SchedS.init 0 [[.acquire, .load, .release, .acquire, .store, .release],
                          [.acquire, .load, .release, .acquire, .store, .release]])
          [0, 0, 0, 1, 1, 1, 0, 0, 0, 1, 1, 1]).log = [(0, 1), (1, 1)] :=
  ⟨by decide, by decide, ⟨rfl, rfl, rfl, rfl, rfl, rfl, rfl, rfl, rfl, rfl, rfl, rfl, trivial⟩, by decide⟩

/-- erasure (`load`, `store` ↦ `step`) maps the model with the counter onto the lock model:
    enabledness, steps, runs and valid schedules commute with it -/
theorem C12_alloc_erasure (s : SchedS.State) :
    (∀ i, Sched.enabled (SchedS.erase s) i = SchedS.enabled s i)
      ∧ (∀ i, SchedS.erase (SchedS.stepThread s i) = Sched.stepThread (SchedS.erase s) i)
      ∧ (∀ sched, SchedS.erase (SchedS.run s sched) = Sched.run (SchedS.erase s) sched)
      ∧ (∀ sched, SchedS.ValidSched s sched ↔ Sched.ValidSched (SchedS.erase s) sched) :=
  ⟨SchedS.enabled_erase s, SchedS.stepThread_erase s, fun sched => SchedS.run_erase sched s,
    fun sched => SchedS.validSched_erase sched s⟩

/-- no deadlock in the model with the counter (from `C12_progress` through erasure) -/
theorem C12_alloc_progress (s : SchedS.State) (hinv : Sched.Inv (SchedS.erase s))
    (hnot : ∃ t ∈ s.threads, t.prog ≠ []) : ∃ i, SchedS.enabled s i = true := by
  obtain ⟨i, hi⟩ := C12_progress (SchedS.erase s) hinv (SchedS.exists_unfinished_erase s hnot)
  exact ⟨i, by rw [← SchedS.enabled_erase]; exact hi⟩

/-- termination in the model with the counter (from `C12_terminates` through erasure): along any valid
    schedule the lock invariant is kept and each step executes one instruction; a schedule shorter
    than `measure s` can be continued; one of length `measure s` has finished every program, with the
    lock free -/
theorem C12_alloc_terminates (s : SchedS.State) (hinv : Sched.Inv (SchedS.erase s)) (sched : List Nat)
    (hv : SchedS.ValidSched s sched) :
    Sched.Inv (SchedS.erase (SchedS.run s sched))
      ∧ SchedS.measure (SchedS.run s sched) + sched.length = SchedS.measure s
      ∧ (sched.length < SchedS.measure s → ∃ i, SchedS.ValidSched s (sched ++ [i]))
      ∧ (sched.length = SchedS.measure s →
          (∀ t ∈ (SchedS.run s sched).threads, t.prog = []) ∧ (SchedS.run s sched).holder = none) := by
  obtain ⟨h1, h2, h3, h4⟩ :=
    C12_terminates (SchedS.erase s) hinv sched ((SchedS.validSched_erase sched s).mp hv)
  rw [← SchedS.run_erase] at h1 h2 h4
  refine ⟨h1, h2, ?_, ?_⟩
  · intro hlt
    obtain ⟨i, hi⟩ := h3 hlt
    exact ⟨i, (SchedS.validSched_erase _ s).mpr hi⟩
  · intro heq
    obtain ⟨hf, hh⟩ := h4 heq
    exact ⟨(SchedS.finished_iff _).mp hf, hh⟩

/-- … and for disciplined, `AllocInside` programs complete schedules exist and hand out exactly as
    many ids as there are `store`s in the programs -/
theorem C12_alloc_complete (c0 : Nat) (progs : List (List SchedS.Instr))
    (hd : ∀ p ∈ progs, SchedS.Disciplined p = true) (ha : ∀ p ∈ progs, SchedS.AllocInside p = true) :
    (∃ sched, SchedS.ValidSched (SchedS.init c0 progs) sched
        ∧ sched.length = SchedS.measure (SchedS.init c0 progs))
      ∧ ∀ sched, SchedS.ValidSched (SchedS.init c0 progs) sched →
          sched.length = SchedS.measure (SchedS.init c0 progs) →
          (SchedS.run (SchedS.init c0 progs) sched).log.length
            = SchedS.storesLeft (SchedS.init c0 progs).threads := by
  have hinv := SchedS.init_ainv c0 progs hd ha
  refine ⟨?_, ?_⟩
  · obtain ⟨sched, hv, hl⟩ := C12_schedule_exists _ hinv.lock
    exact ⟨sched, (SchedS.validSched_erase _ _).mpr hv, hl⟩
  · intro sched hv hl
    have hfin := ((C12_alloc_terminates _ hinv.lock sched hv).2.2.2 hl).1
    have hst := SchedS.run_stores sched (SchedS.init c0 progs)
    have h0 : SchedS.storesLeft (SchedS.run (SchedS.init c0 progs) sched).threads = 0 := by
      generalize (SchedS.run (SchedS.init c0 progs) sched).threads = ts at hfin
      induction ts with
      | nil => rfl
      | cons t ts ih =>
        have ht := hfin t List.mem_cons_self
        simp only [SchedS.storesLeft, ht, List.count_nil, Nat.zero_add]
        exact ih (fun t' h' => hfin t' (List.mem_cons_of_mem _ h'))
    rw [h0] at hst
    simpa [SchedS.init] using hst

/-- the sequential table model performs exactly this pair atomically. `new_cache_id` is the
    read-modify-write `id := (id + 1) mod 2^64; return id` touching nothing else in the cache; and
    `Table::new` on a well-formed image in a clean world (setting of `open_ok`, cf. `C10_ids_distinct`,
    `C10_two_opens_distinct`) returns a handle whose cache id is the old counter + 1 and leaves the
    counter at that id, cache contents and capacity untouched — one `load; store` with nothing in
    between. (The model is sequential: one `M` action is atomic, which is what the write lock
    provides.) -/
theorem C12_new_allocates_atomically :
    (∀ (c : LruCache Bytes), c.newCacheId.2 = (c.nextId + 1) % 2 ^ 64
        ∧ c.newCacheId.1.nextId = c.newCacheId.2
        ∧ c.newCacheId.1.entries = c.entries ∧ c.newCacheId.1.cap = c.cap)
      ∧ (∀ (cmp : Cmp) (_ : cmp.Lawful) (p : FilterPolicy) (t : TableImg) (_ : t.WF cmp)
          (fv : Option Bytes) (_ : FilterView p t fv) (w : World) (file : Nat)
          (_ : CleanWorld w file t.img),
          ∃ w' tb, Table.new ⟨cmp, p⟩ file t.img.length w = (w', .ok tb)
            ∧ tb.cacheId = (w.cache.nextId + 1) % 2 ^ 64
            ∧ w'.cache.nextId = tb.cacheId
            ∧ w'.cache.entries = w.cache.entries ∧ w'.cache.cap = w.cache.cap) := by
  refine ⟨fun c => ⟨rfl, rfl, rfl, rfl⟩, ?_⟩
  intro cmp hc p t hwf fv hfv w file hcw
  obtain ⟨w', tb, hnew, _, _, hid, _, _, hent, hcap, hnid, _⟩ := open_ok cmp hc p t hwf fv hfv w file hcw
  exact ⟨w', tb, hnew, hid, by rw [hnid, hid], hent, hcap⟩

/-- in the thread model the same section `acquire; load; store; release`, from any counter value `n`
    and with any other threads around, hands out `n + 1` and leaves the counter at `n + 1` -/
theorem C12_atomic_alloc_section (n : Nat) (others : List SchedS.Thread) (log : List (Nat × Nat)) :
    (SchedS.run { threads := ⟨[.acquire, .load, .store, .release], 0⟩ :: others, holder := none,
                  counter := n, log := log } [0, 0, 0, 0]).counter = n + 1
      ∧ (SchedS.run { threads := ⟨[.acquire, .load, .store, .release], 0⟩ :: others, holder := none,
                      counter := n, log := log } [0, 0, 0, 0]).log = log ++ [(0, n + 1)]
      ∧ (SchedS.run { threads := ⟨[.acquire, .load, .store, .release], 0⟩ :: others, holder := none,
                      counter := n, log := log } [0, 0, 0, 0]).holder = none :=
  ⟨rfl, rfl, rfl⟩

-- the shape of `Table::new` followed by a lookup: allocation section, then a `read_block` section
example : SchedS.Disciplined [.step, .acquire, .load, .store, .release, .step, .acquire, .step, .release] = true
    ∧ SchedS.AllocInside [.step, .acquire, .load, .store, .release, .step, .acquire, .step, .release] = true := by
  decide
-- a `store` without its `load`, a `load` that is never stored, a step between the two: not `AllocInside`
example : SchedS.AllocInside [.acquire, .store, .release] = false := by decide
example : SchedS.AllocInside [.acquire, .load, .release] = false := by decide
example : SchedS.AllocInside [.acquire, .load, .step, .store, .release] = false := by decide
-- three threads opening tables under the lock, one interleaving: ids 8, 9, 10
example : ((SchedS.run (SchedS.init 7 [[.acquire, .load, .store, .release], [.acquire, .load, .store, .release],
    [.step, .acquire, .load, .store, .release]]) [2, 1, 1, 1, 2, 1, 2, 2, 0, 0, 2, 0, 0]).log.map Prod.snd)
    = [8, 9, 10] := by decide

end Sst

#print axioms Sst.C12_ids_distinct_any_schedule
#print axioms Sst.C12_alloc_step
#print axioms Sst.C12_ids_racy_counterexample
#print axioms Sst.C12_ids_split_counterexample
#print axioms Sst.C12_alloc_erasure
#print axioms Sst.C12_alloc_progress
#print axioms Sst.C12_alloc_terminates
#print axioms Sst.C12_alloc_complete
#print axioms Sst.C12_new_allocates_atomically
#print axioms Sst.C12_atomic_alloc_section
