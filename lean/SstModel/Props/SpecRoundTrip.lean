import SstModel.Lemmas.SpecEncode
import SstModel.Props.C06
/-
  ADEQUACY OF THE INDEPENDENT DECODER.

  `Spec/Format.lean` (the decoder of the LevelDB table format that judges the crate's files in C05 and is the
  hypothesis of the reader theorem C06) is shown here to accept EVERYTHING the format lets a producer
  write: `Spec/Encode.lean` is an independent, declarative ENCODER with free layout (free restart points,
  free amount of prefix sharing, blocks in any file order, arbitrary gap bytes, raw or snappy storage,
  any metaindex entries, unreferenced blocks, free index keys, free footer padding), and the decoder
  inverts it on every well-formed layout.  Consequently `WFTable`, hence C06, covers every such layout.

  Side conditions (all are demands of the FORMAT, none of the crate):
  * `BlockLayout.WF`: restart indices start at 0, strictly increase, lie in the block; `share r = 0` at
    restart points, `share (i+1) ≤ commonPrefix key_i key_(i+1)`; the encoded block is shorter than 2^32
    (restart offsets and count are u32);
  * `Section.OK`: the block is `WF`; a compressed block is a snappy stream that `Snappy.decode` maps to
    the block contents;
  * `TableLayout.WF`: sections, index block and tail `OK`, `metaAt` is a block of the file and the index
    targets are sections before the index block, the file is shorter than 2^64 (offsets are varint64);
  * `TableLayout.Ordered cmp` (for `WFTable` only): data blocks non-empty, keys strictly increasing in
    index order, every index key ≥ the keys of its block and < the keys of the next block, no block
    listed twice, metaindex keys increasing.

  Layout freedom NOT covered by `encodeTable`: an index block placed BEFORE a block it points to (offsets
  are computed front to back), non-shortest varints, trailing bytes after the handle in an index value.
-/
namespace Sst
open Spec Spec.Format

/-! ### integers -/

/-- the decoder's varint (as it is called everywhere: `varint b 0 0`) inverts the shortest-form encoder -/
theorem Spec_varint_roundtrip (n : Nat) (h : n < 2 ^ 64) (rest : Bytes) :
    varint (encVarint n ++ rest) 0 0 = some (n, rest) :=
  Enc.varint_encVarint n h rest

/-- the same for the codec model's `encodeVarint` (the two encoders are the same function) -/
theorem Spec_varint_roundtrip_codec (n : Nat) (h : n < 2 ^ 64) (rest : Bytes) :
    varint (encodeVarint n ++ rest) 0 0 = some (n, rest) := by
  rw [← Enc.encVarint_eq]; exact Enc.varint_encVarint n h rest

/-- more generally: any shortest-form varint that keeps the 10 byte limit (`n < 2^70`) -/
theorem Spec_varint_roundtrip_len (n : Nat) (h : (encVarint n).length ≤ 10) (rest : Bytes) :
    varint (encVarint n ++ rest) 0 0 = some (n, rest) := by
  have := Enc.varint_encVarint_gen n 0 0 rest (by omega)
  rwa [Nat.shiftLeft_zero] at this

theorem Spec_u32_roundtrip (n : Nat) (h : n < 2 ^ 32) : u32le (encU32le n) = some n :=
  Enc.u32le_encU32le n h

theorem Spec_handle_roundtrip (h : Handle) (ho : h.offset < 2 ^ 64) (hs : h.size < 2 ^ 64)
    (rest : Bytes) : handle (encHandle h ++ rest) = some (h, rest) :=
  Enc.handle_encHandle h ho hs rest

/-! ### blocks -/

/-- every well-formed block layout is parsed back: the entries, and the restart array = the offsets of
    the chosen restart entries -/
theorem Spec_block_roundtrip (bl : BlockLayout) (wf : bl.WF) :
    parseBlock (encodeBlock bl) = some { entries := bl.entries, restarts := bl.restartOffsets } :=
  Enc.parseBlock_encodeBlock bl wf

/-- an uncompressed physical block anywhere in an image -/
theorem Spec_phys_roundtrip (pre post c : Bytes) :
    block (pre ++ phys c ++ post) ⟨pre.length, c.length⟩ = some c :=
  Enc.block_physWith_zero pre post c

/-- a compressed physical block anywhere in an image: whatever the snappy decoder makes of it -/
theorem Spec_phys_roundtrip_snappy (pre post raw : Bytes) :
    block (pre ++ physWith 1 raw ++ post) ⟨pre.length, raw.length⟩ = Snappy.decode raw :=
  Enc.block_physWith_one pre post raw

/-! ### tables -/

/-- **The decoder inverts the free-layout encoder.**  For every well-formed table layout the decoder
    succeeds and finds: the entries in index order, the index keys, the handles the encoder computed
    (which point at the stored bytes of the sections), per block the entries and the restart array,
    the metaindex entries, and the two footer handles. -/
theorem Spec_table_roundtrip (tl : TableLayout) (wf : tl.WF) :
    ∃ d, decodeTable (encodeTable tl) = some d
      ∧ d = tl.decoded
      ∧ d.entries = tl.entries
      ∧ d.blocks.map (·.indexKey) = tl.index.map (·.1)
      ∧ d.blocks.map (·.handle) = tl.index.map (fun p => tl.handleOf p.2)
      ∧ d.blocks.map (·.entries) = tl.index.map (fun p => (tl.sectionAt p.2).block.entries)
      ∧ d.blocks.map (·.restarts) = tl.index.map (fun p => (tl.sectionAt p.2).block.restartOffsets)
      ∧ d.metaEntries = tl.metaEntries
      ∧ d.metaIndex = tl.metaHandle
      ∧ d.index = tl.indexHandle
      ∧ ∀ j, j < tl.sections.length →
          ((encodeTable tl).drop (tl.handleOf j).offset).take (tl.handleOf j).size = (tl.sectionAt j).raw := by
  refine ⟨tl.decoded, decodeTable_encodeTable tl wf, rfl, Enc.decoded_entries tl, ?_, ?_, ?_, ?_, rfl, rfl,
    rfl, ?_⟩
  · simp only [TableLayout.decoded, List.map_map]; rfl
  · simp only [TableLayout.decoded, List.map_map]; rfl
  · simp only [TableLayout.decoded, List.map_map]; rfl
  · simp only [TableLayout.decoded, List.map_map]; rfl
  · intro j hj
    have hs : tl.sections[j]? = some (tl.sectionAt j) := by
      simp only [TableLayout.sectionAt]
      rw [List.getD_eq_getElem?_getD, List.getElem?_eq_getElem hj]; rfl
    have := Enc.raw_at_handle tl.sections
      (layoutBytes (tl.indexSection :: tl.tail) ++ tl.footerGap ++ tl.footer) j _ hs
    simpa only [encodeTable, TableLayout.allSections, Enc.layoutBytes_append, List.append_assoc,
      TableLayout.handleOf] using this

/-- … so every sorted, bracketed layout encodes to a well-formed table (`Spec/WFTable.lean`) -/
theorem Spec_wfTable_of_layout (cmp : Cmp) (hc : cmp.Lawful) (tl : TableLayout) (wf : tl.WF)
    (ho : tl.Ordered cmp) : WFTable cmp (encodeTable tl) tl.decoded :=
  wfTable_of_layout cmp hc tl wf ho

/-- **C06 for every layout**: the reader opens, scans, looks up, seeks and iterates correctly on the
    encoding of EVERY well-formed, ordered table layout -- whatever restart points, prefix sharing,
    block order, gaps, compression, metaindex entries and index keys its producer chose. -/
theorem C06_for_every_layout (cmp : Cmp) (hc : cmp.Lawful) (p : FilterPolicy) (tl : TableLayout)
    (wf : tl.WF) (ho : tl.Ordered cmp) (hfc : FilterCompat cmp p (encodeTable tl) tl.decoded)
    (w : World) (file : Nat) (hcw : CleanWorld w file (encodeTable tl)) (hempty : w.cache.entries = []) :
    ∃ w1 tb it, Table.new ⟨cmp, p⟩ file (encodeTable tl).length w = (w1, .ok tb)
      ∧ TableIter.new tb w1 = (w1, .ok it)
      ∧ (∃ w2 it2, it.run (List.replicate (tl.entries.length + 1) IterOp.next) w1
            = (w2, .ok (it2, tl.entries.map (fun e => IterOut.entry (some e)) ++ [IterOut.entry none])))
      ∧ (∀ k, ∃ w2, tb.get k w1 = (w2, .ok (Spec.lookup cmp tl.entries k)))
      ∧ (∀ target, ∃ w2 it2, it.run [.seek target, .current, .valid] w1
            = (w2, .ok (it2, [.unit, .entry (entryAt tl.entries (lowerBound cmp tl.entries target)),
                              .flag (lowerBound cmp tl.entries target).isSome])))
      ∧ (∀ ops, ∃ w2 it2 p2 outs, it.run ops w1 = (w2, .ok (it2, outs))
            ∧ CursorRun cmp tl.entries none ops p2 outs) := by
  have h := C06_reader cmp hc p (encodeTable tl) tl.decoded (wfTable_of_layout cmp hc tl wf ho) hfc
    w file hcw hempty
  rw [Enc.decoded_entries] at h
  exact h

/-- a reader policy whose filter name is not among the layout's metaindex keys is compatible -/
theorem C06_for_every_layout_no_filter (cmp : Cmp) (p : FilterPolicy) (tl : TableLayout)
    (h : ∀ e ∈ tl.metaEntries, e.1 ≠ Table.filterName p) :
    FilterCompat cmp p (encodeTable tl) tl.decoded :=
  filterCompat_of_absent cmp p _ _ h

end Sst

/-! ### non-vacuity: a layout no `TableBuilder` produces -/

namespace Sst
open Spec Spec.Format

namespace FreeLayout

deriving instance DecidableEq for BlockInfo, DataBlock, Decoded

/-- data block A: 4 entries; restart points at entries 0 and 3 (no fixed interval); entry 1 shares ONE
    byte with its predecessor although two are common; entry 2 shares all three -/
def blockA : BlockLayout :=
  { entries := [([1, 2, 3], [10]), ([1, 2, 4], [11]), ([1, 2, 4, 5], []), ([1, 2, 9], [12, 13])]
    restartAt := [0, 3]
    share := fun i => if i = 1 then 1 else if i = 2 then 3 else 0 }

/-- data block B (keys below those of A) -/
def blockB : BlockLayout := { entries := [([0], [7, 7])], restartAt := [0], share := fun _ => 0 }

/-- a snappy stream for block B: a 7 byte literal, copy(3, offset 1), literal, copy(3, offset 4) -/
def blockBsnappy : Bytes := [14, 24, 0, 1, 2, 0, 7, 7, 0, 10, 1, 0, 0, 1, 10, 4, 0]

/-- metaindex block with one entry no reader knows -/
def blockM : BlockLayout :=
  { entries := [([0x66, 0x6f, 0x6f], [1, 2, 3])], restartAt := [0], share := fun _ => 0 }

/-- a block no index entry points to -/
def blockJ : BlockLayout := { entries := [([9], [9])], restartAt := [0], share := fun _ => 0 }

/-- file order: gap, A, gap, B (compressed), gap, unreferenced block, gap, index, gap, metaindex (AFTER
    the index block), gap, footer; index order: B, A.  The index key of B is its last key, that of A a
    short key above its last. -/
def ex : TableLayout :=
  { sections := [⟨[0xde, 0xad], blockA, none⟩, ⟨[9, 9, 9], blockB, some blockBsnappy⟩, ⟨[5], blockJ, none⟩]
    tail := [⟨[3, 3], blockM, none⟩]
    metaAt := 4
    index := [([0], 1), ([1, 3], 0)]
    indexRestartAt := [0, 1]
    indexShare := fun _ => 0
    indexGap := [1]
    footerGap := [2, 2]
    footerPad := [0xff] }

theorem blockA_wf : blockA.WF :=
  Enc.blockWF_of_checks _ (by decide) (by decide) (by decide) (by decide) (by decide +kernel)
theorem blockB_wf : blockB.WF :=
  Enc.blockWF_of_checks _ (by decide) (by decide) (by decide) (by decide) (by decide +kernel)
theorem blockM_wf : blockM.WF :=
  Enc.blockWF_of_checks _ (by decide) (by decide) (by decide) (by decide) (by decide +kernel)
theorem blockJ_wf : blockJ.WF :=
  Enc.blockWF_of_checks _ (by decide) (by decide) (by decide) (by decide) (by decide +kernel)

theorem ex_wf : ex.WF where
  sections := by
    intro s hs
    simp only [ex, List.mem_cons, List.not_mem_nil, or_false] at hs
    rcases hs with rfl | rfl | rfl
    · exact ⟨blockA_wf, fun raw h => by cases h⟩
    · refine ⟨blockB_wf, fun raw h => ?_⟩
      cases h
      decide +kernel
    · exact ⟨blockJ_wf, fun raw h => by cases h⟩
  index := ⟨Enc.blockWF_of_checks _ (by decide) (by decide) (by decide +kernel) (by decide +kernel)
    (by decide +kernel), fun raw h => by cases h⟩
  tail := by
    intro s hs
    simp only [ex, List.mem_cons, List.not_mem_nil, or_false] at hs
    subst hs
    exact ⟨blockM_wf, fun raw h => by cases h⟩
  metaIn := by decide
  indexIn := by decide
  small := by decide +kernel

theorem ex_ordered : ex.Ordered defaultCmp :=
  Enc.ordered_of_checks _ _ (by decide +kernel) (by decide +kernel) (by decide +kernel) (by decide +kernel)
    (by decide +kernel)

/-- the 193 bytes, decoded by the kernel: entries in INDEX order (B first although it lies behind A in
    the file), handles at the encoder's offsets, restart arrays `[0]` / `[0, 17]`, the unknown
    metaindex entry -/
theorem ex_roundtrip_eval :
    decodeTable (encodeTable ex) = some
      { metaIndex := ⟨121, 17⟩
        index := ⟨89, 25⟩
        blocks := [{ handle := ⟨47, 17⟩, indexKey := [0], entries := [([0], [7, 7])], restarts := [0] },
                   { handle := ⟨2, 37⟩, indexKey := [1, 3],
                     entries := [([1, 2, 3], [10]), ([1, 2, 4], [11]), ([1, 2, 4, 5], []),
                                 ([1, 2, 9], [12, 13])],
                     restarts := [0, 17] }]
        metaEntries := [([0x66, 0x6f, 0x6f], [1, 2, 3])] } := by decide +kernel

/-- … which is what the theorem says -/
theorem ex_roundtrip : decodeTable (encodeTable ex) = some ex.decoded := decodeTable_encodeTable ex ex_wf

/-- the example satisfies every hypothesis of `Spec_wfTable_of_layout` / `C06_for_every_layout` -/
theorem ex_wfTable : WFTable defaultCmp (encodeTable ex) ex.decoded :=
  Spec_wfTable_of_layout defaultCmp defaultCmp_lawful ex ex_wf ex_ordered

theorem ex_filterCompat (p : FilterPolicy) (h : Table.filterName p ≠ [0x66, 0x6f, 0x6f]) :
    FilterCompat defaultCmp p (encodeTable ex) ex.decoded := by
  apply C06_for_every_layout_no_filter
  intro e he
  have hm : ex.metaEntries = [([0x66, 0x6f, 0x6f], [1, 2, 3])] := by decide +kernel
  rw [hm] at he
  simp only [List.mem_cons, List.not_mem_nil, or_false] at he
  subst he
  exact fun hh => h hh.symm

end FreeLayout
end Sst

#print axioms Sst.Spec_varint_roundtrip
#print axioms Sst.Spec_varint_roundtrip_codec
#print axioms Sst.Spec_varint_roundtrip_len
#print axioms Sst.Spec_u32_roundtrip
#print axioms Sst.Spec_handle_roundtrip
#print axioms Sst.Spec_block_roundtrip
#print axioms Sst.Spec_phys_roundtrip
#print axioms Sst.Spec_phys_roundtrip_snappy
#print axioms Sst.Spec_table_roundtrip
#print axioms Sst.Spec_wfTable_of_layout
#print axioms Sst.C06_for_every_layout
#print axioms Sst.C06_for_every_layout_no_filter
#print axioms Sst.FreeLayout.ex_wf
#print axioms Sst.FreeLayout.ex_ordered
#print axioms Sst.FreeLayout.ex_roundtrip_eval
#print axioms Sst.FreeLayout.ex_roundtrip
#print axioms Sst.FreeLayout.ex_wfTable
#print axioms Sst.FreeLayout.ex_filterCompat
