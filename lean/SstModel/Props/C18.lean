import SstModel.Lemmas.TableGet
import SstModel.Lemmas.BloomProbes
import SstModel.Props.ConstsTie
/-
  C18 — Lookups of absent keys rarely touch a data block.

  The RATE (≈ 1 % passes for the default policy; the catalogue's bound is 3 %) is a property of
  `bloom_hash` on the keys at hand and is MEASURED by the harness. What is proved here is the structure
  that makes the measurement meaningful:

  * the filter is consulted BEFORE any block is fetched, and a rejected key costs nothing: no read, no
    cache access, the world is unchanged (`C18_rejected_key_touches_nothing`, `…_world_unchanged`);
  * the filter has the discriminating power it was configured for: `max(64, n·b)` bits rounded up to
    whole bytes for `n` keys at `b` bits per key (`C18_filter_size`), `k = clamp(⌊0.69·b⌋, 1, 30)` probes
    recorded in the last byte (`C18_probe_count`), `b = 10`, `k = 6` by default (`C18_default_policy`);
  * the `k` positions `key_may_match` tests for a key are the double-hashing sequence
    `h, h+δ, h+2δ, … (mod 2^32)` of `h = bloom_hash(key)`, reduced mod the number of bits
    (`C18_probe_positions`, `C18_reader_tests_probes`), and they are exactly the positions
    `create_filter` sets for that key — the set bits of a created filter are the union of its keys'
    probe positions and nothing else, so a key passes iff each of its `k` probes hits a bit set by a
    member (`C18_probes_are_the_ones_set`). Under an ideal hash this is what gives a non-member the
    passing probability `(1 − e^{−kn/m})^k`.
-/
namespace Sst

/-- the filter is consulted BEFORE any block is fetched: when the table has a filter and it rejects the
    key for the block the index points to, the lookup returns `None` and costs no read and no cache
    access (hypotheses of `get_filtered_no_access`) -/
theorem C18_rejected_key_touches_nothing (cmp : Cmp) (hc : cmp.Lawful) (p : FilterPolicy) (t : TableImg)
    (hwf : t.WF cmp) (fv : Option Bytes) (tb : Table) (hop : Opened tb t cmp p fv)
    (hsound : ∀ fb, fv = some fb → FilterSound p t fb)
    (w : World) (hw : WorldOK w tb t) (k : Bytes)
    (r : FilterBlockReader) (hf : tb.filters = some r)
    (d : DBlock) (bi : Nat)
    (hbi : Spec.lowerBound cmp (t.seps.map (fun s => (s, ([] : Bytes)))) k = some bi)
    (hd : t.blocks[bi]? = some d) (hrej : r.keyMayMatch p d.handle.offset k = .ok false) :
    ∃ w', tb.get k w = (w', .ok none) ∧ w'.readLog = w.readLog ∧ w'.events = w.events
      ∧ w'.cache = w.cache :=
  get_filtered_no_access cmp hc p t hwf fv tb hop hsound w hw k r hf d bi hbi hd hrej

/-- strong form: the world is returned unchanged, in ANY world (any cache contents, any fault schedule)
    and for any filter policy, sound or not -/
theorem C18_rejected_key_world_unchanged (cmp : Cmp) (hc : cmp.Lawful) (p : FilterPolicy) (t : TableImg)
    (hwf : t.WF cmp) (fv : Option Bytes) (tb : Table) (hop : Opened tb t cmp p fv)
    (w : World) (k : Bytes)
    (r : FilterBlockReader) (hf : tb.filters = some r)
    (d : DBlock) (bi : Nat)
    (hbi : Spec.lowerBound cmp (t.seps.map (fun s => (s, ([] : Bytes)))) k = some bi)
    (hd : t.blocks[bi]? = some d) (hrej : r.keyMayMatch p d.handle.offset k = .ok false) :
    tb.get k w = (w, .ok none) :=
  get_filtered_world_eq cmp hc p t hwf fv tb hop w k r hf d bi hbi hd hrej

/-- the filter has the size it was configured for: a bloom filter for `n` keys at `b` bits per key has
    `max(64, n·b)` bits rounded up to whole bytes, plus one byte holding the probe count -/
theorem C18_filter_size (b : Nat) (keys : List Bytes) :
    (Bloom.createFilter b keys).length
      = (if keys.length * b < 64 then 8 else (keys.length * b + 7) / 8) + 1 :=
  Bloom.createFilter_length b keys

/-- the last byte holds the probe count `k = clamp(⌊0.69·b⌋, 1, 30)`, without truncation -/
theorem C18_probe_count (b : Nat) (keys : List Bytes) :
    (Bloom.createFilter b keys).getLast? = some (UInt8.ofNat (Bloom.kOf b))
      ∧ (UInt8.ofNat (Bloom.kOf b)).toNat = Bloom.kOf b
      ∧ Bloom.kOf b = max 1 (min 30 (b * 69 / 100))
      ∧ 1 ≤ Bloom.kOf b ∧ Bloom.kOf b ≤ 30 := by
  refine ⟨Bloom.createFilter_getLast b keys, ?_, Bloom.kOf_eq b, Bloom.kOf_ge b, Bloom.kOf_le b⟩
  have := Bloom.kOf_le b
  rw [UInt8.toNat_ofNat']
  apply Nat.mod_eq_of_lt; omega

/-- the default policy: 10 bits per key, 6 probes -/
theorem C18_default_policy : Consts.defaultBitsPerKey = 10 ∧ Bloom.kOf 10 = 6 :=
  ConstsTie.default_bloom_k

/-- the probe positions of a key in an array of `bits > 0` bits: `k` of them, all `< bits`, the `i`-th
    being `(h + i·δ) mod 2^32 mod bits` for `h = bloom_hash(key)` (a `u32`) and `δ = delta h` (`h` rotated
    right by 17 bits) -/
theorem C18_probe_positions (bits k : Nat) (key : Bytes) (hbits : 0 < bits) :
    (Bloom.keyProbes bits k key).length = k
      ∧ (∀ q ∈ Bloom.keyProbes bits k key, q < bits)
      ∧ Bloom.bloomHash key < 4294967296
      ∧ Bloom.keyProbes bits k key = (List.range k).map
          (fun i => (Bloom.bloomHash key + i * Bloom.delta (Bloom.bloomHash key)) % 4294967296 % bits) :=
  ⟨Bloom.probePositions_length _ _ _ _, Bloom.probePositions_lt _ _ hbits _ _, Bloom.bloomHash_lt key,
    Bloom.probePositions_closed _ _ _ _ (Bloom.bloomHash_lt key)⟩

/-- `key_may_match`, on ANY filter of at least 2 bytes whose last byte `k` is at most 30 (shorter
    filters and larger `k` match everything), tests exactly the `k` probe positions of the key in the
    bit array formed by all bytes but the last — `8·(len−1)` bits, computed in 64 bits since fix D19
    (`ConstsTie.bloom_bits_width`; it was mod 2^32), so every tested position is `< 8·(len−1)` — and
    answers their conjunction -/
theorem C18_reader_tests_probes (key filter : Bytes) (hlen : 2 ≤ filter.length)
    (hk : (filter.getD (filter.length - 1) 0).toNat ≤ 30) :
    Bloom.keyMayMatch key filter =
      (Bloom.keyProbes (((filter.length - 1) * 8) % 2 ^ 64)
          (filter.getD (filter.length - 1) 0).toNat key).all
        (Bloom.testBit (filter.take (filter.length - 1))) :=
  Bloom.keyMayMatch_eq_all key filter hlen hk

/-- the same without the reduction, for every filter of at most 2^61 bytes (2 EiB; in particular every
    filter stored in a table file): exactly `8·(len−1)` bits -/
theorem C18_reader_tests_probes_small (key filter : Bytes) (hlen : 2 ≤ filter.length)
    (hsmall : filter.length ≤ 2 ^ 61)
    (hk : (filter.getD (filter.length - 1) 0).toNat ≤ 30) :
    Bloom.keyMayMatch key filter =
      (Bloom.keyProbes ((filter.length - 1) * 8) (filter.getD (filter.length - 1) 0).toNat key).all
        (Bloom.testBit (filter.take (filter.length - 1))) :=
  Bloom.keyMayMatch_eq_all_small key filter hlen hsmall hk

/-- the probes tested are the ones set. For a filter created for `keys` at `b` bits per key (bit array
    below 2^64 bits: `FitsBits`, every filter below 2 EiB), with `m = 8·nbytes` bits and `k = kOf b`:
    the filter is the bit array followed by the byte `k`; a bit of the array is set iff it is one of the
    `k` probe positions of one of the keys; hence `key_may_match` passes a key iff each of its `k` probe
    positions is a probe position of some member — in particular it passes every member. -/
theorem C18_probes_are_the_ones_set (b : Nat) (keys : List Bytes) (hfit : Bloom.FitsBits b keys) :
    ∃ arr : Bytes, Bloom.createFilter b keys = arr ++ [UInt8.ofNat (Bloom.kOf b)]
      ∧ arr.length = Bloom.nbytesOf b keys
      ∧ Bloom.nbytesOf b keys = (if keys.length * b < 64 then 8 else (keys.length * b + 7) / 8)
      ∧ (∀ q, Bloom.testBit arr q = true ↔
              ∃ key ∈ keys, q ∈ Bloom.keyProbes (Bloom.nbytesOf b keys * 8) (Bloom.kOf b) key)
      ∧ (∀ key, Bloom.keyMayMatch key (Bloom.createFilter b keys) = true ↔
              ∀ q ∈ Bloom.keyProbes (Bloom.nbytesOf b keys * 8) (Bloom.kOf b) key,
                ∃ key' ∈ keys, q ∈ Bloom.keyProbes (Bloom.nbytesOf b keys * 8) (Bloom.kOf b) key')
      ∧ (∀ key ∈ keys, Bloom.keyMayMatch key (Bloom.createFilter b keys) = true) := by
  refine ⟨_, Bloom.createFilter_eq b keys hfit, ?_, rfl, Bloom.createFilter_bits b keys,
    fun key => Bloom.keyMayMatch_createFilter_iff b keys key hfit, ?_⟩
  · rw [Bloom.foldl_addKey_length, List.length_replicate]
  · intro key hkey
    exact (Bloom.keyMayMatch_createFilter_iff b keys key hfit).mpr (fun q hq => ⟨key, hkey, hq⟩)

/-! ### examples -/

-- 100 keys at 10 bits per key: 1000 bits = 125 bytes, + 1 byte for k
example (keys : List Bytes) (h : keys.length = 100) : (Bloom.createFilter 10 keys).length = 126 := by
  rw [C18_filter_size, h]; rfl
-- the floor of 64 bits for small key sets
example : (Bloom.createFilter 10 [[1], [2]]).length = 9 := by rw [C18_filter_size]; rfl
-- k for some bits-per-key settings: clamped below at 1 and above at 30
example : [0, 1, 2, 5, 10, 16, 43, 44, 100].map Bloom.kOf = [1, 1, 1, 3, 6, 11, 29, 30, 30] := by decide

end Sst

#print axioms Sst.C18_rejected_key_touches_nothing
#print axioms Sst.C18_rejected_key_world_unchanged
#print axioms Sst.C18_filter_size
#print axioms Sst.C18_probe_count
#print axioms Sst.C18_default_policy
#print axioms Sst.C18_probe_positions
#print axioms Sst.C18_reader_tests_probes
#print axioms Sst.C18_reader_tests_probes_small
#print axioms Sst.C18_probes_are_the_ones_set
