import SstModel.Spec.Order
import SstModel.Lemmas.Sep
/-
  C17 — Separator and successor keys always bracket correctly.

  For all byte strings a < b the bytewise comparator's separator s satisfies a ≤ s < b and is at most
  one byte longer than a; for every a its successor is not smaller than a.

  Stated against the Spec order `LexLt` (textbook lexicographic order); `model_order_is_lex` ties the
  model's `cmpBytes` (what `<[u8]>::cmp` does) to it.
-/
namespace Sst
open Spec DefaultCmp

theorem model_order_is_lex (a b : Bytes) : blt a b ↔ LexLt a b := by
  constructor
  · intro h
    induction a generalizing b with
    | nil => cases b with
      | nil => exact absurd h (blt_irrefl _)
      | cons y ys => exact .nil y ys
    | cons x xs ih => cases b with
      | nil => exact absurd h (not_blt_nil _)
      | cons y ys =>
        rcases blt_cons_iff.mp h with h1 | ⟨h1, h2⟩
        · exact .head _ _ (UInt8.lt_iff_toNat_lt.mp h1)
        · subst h1; exact .tail (ih _ h2)
  · intro h
    induction h with
    | nil y ys => exact nil_blt_cons y ys
    | head xs ys h => exact blt_cons_of_lt _ _ (UInt8.lt_iff_toNat_lt.mpr h)
    | tail _ ih => exact blt_cons_same.mpr ih

theorem model_le_is_lex (a b : Bytes) : ble a b ↔ LexLe a b := by
  rw [ble_iff, model_order_is_lex]; rfl

/-- C17, separator clause. -/
theorem C17_sep (a b : Bytes) (h : LexLt a b) :
    LexLe a (findShortestSep a b) ∧ LexLt (findShortestSep a b) b
      ∧ (findShortestSep a b).length ≤ a.length + 1 := by
  have := sep_spec a b ((model_order_is_lex a b).mpr h)
  exact ⟨(model_le_is_lex _ _).mp this.1, (model_order_is_lex _ _).mp this.2.1, this.2.2⟩

/-- C17, successor clause (in fact strictly greater). -/
theorem C17_succ (a : Bytes) : LexLe a (findShortSucc a) :=
  .inl ((model_order_is_lex _ _).mp (succ_spec a))

theorem C17_succ_strict (a : Bytes) : LexLt a (findShortSucc a) :=
  (model_order_is_lex _ _).mp (succ_spec a)

/-- "hence an index key is never below any key of its own block and never reaches the first key of
    the next block": for k ≤ a < b ≤ k', the separator s has k ≤ s < k'. -/
theorem C17_bracket (k a b k' : Bytes) (h1 : ble k a) (h : blt a b) (h2 : ble b k') :
    ble k (findShortestSep a b) ∧ blt (findShortestSep a b) k' := by
  have := sep_spec a b h
  exact ⟨ble_trans h1 this.1, blt_of_blt_of_ble this.2.1 h2⟩

-- Non-vacuity and regression anchors (these are tests, labelled as such).
example : findShortestSep [0x61,0x62,0x63] [0x61,0x62,0x63,0] = [0x61,0x62,0x63] := by decide
example : findShortestSep [0x61,0x62,0x63,0x64] [0x61,0x62,0x63,0x66] = [0x61,0x62,0x63,0x65] := by decide
example : findShortestSep [0x61] [0x62] = [0x61, 0] := by decide
example : findShortSucc [0xff, 0xff] = [0xff, 0xff, 0xff] := by decide
example : LexLt [1,2] [1,2,0] := .tail (.tail (.nil _ _))

end Sst
