import SstModel.Lemmas.JudgeSound
/-
  The executable judges DECIDE the Specs.

  The correspondence harness runs the real implementation and hands what it observed to the judges of
  `Spec/Judge.lean`. The property theorems (C04, C05, C17) are stated against relational Specs
  (`Spec.CursorRun`, `Spec.Format.decodeTable` + clauses, `Spec.LexLt`/`LexLe`). The theorems below
  close the gap between the two: a judge answers "ok"/`true` exactly when the observed behaviour
  satisfies the Spec, so a bug in a judge cannot silently accept a wrong implementation.

  C04 vocabulary (defined in `Lemmas/JudgeSound.lean`):
  * `Judge.Renders hex op out o` / `Judge.RendersAll hex ops outs obs`: `obs` is the observation list
    for the calls `ops` to which the implementation answered `outs` (ignored fields arbitrary);
    `Judge.render`/`Judge.renderAll` is the function version, `Judge.ShapedAll ops outs` says the
    answers have the types the calls return.
  * `Judge.PrevThenCur ops`: the harness protocol - every `prev` is immediately followed by `current`.
    `Judge.ProtoRun` is `CursorRun` with the weaker, position-dependent protocol (only a `prev` issued
    at an INVALID position must be followed by `current`).
  * `Judge.HexOK hex`: what is needed of the byte printer (printed entries determine the entry and
    are never "none"; printed keys are never "none"). Proved for the driver's `hexOfBytes` in
    `Driver/JudgeHex.lean`.
-/
namespace Sst
open Spec Judge

/-! ### C04 -/

/-- SOUNDNESS. Whatever the implementation answered (`outs'`, of the right types): if the judge says
    "ok" on the rendered observations, those answers ARE a run of the Spec cursor.
    The only protocol assumption: the history does not END in a `prev` (whose landing position the
    judge could not resolve); this follows from `PrevThenCur ops` (`Judge.PrevThenCur.getLast`).
    The run found also satisfies the position-dependent protocol (`c04_sound_proto`). -/
theorem Judge_c04_sound (cmp : Cmp) (es : List Entry) (hex : Bytes → String) (hx : HexOK hex)
    (ops : List IterOp) (outs' : List IterOut) (hshape : ShapedAll ops outs')
    (hlast : ops.getLast? ≠ some .prev) (p : Pos)
    (h : Judge.c04 cmp es hex (renderAll hex ops outs') p 0 = "ok") :
    ∃ q, CursorRun cmp es p ops q outs' := by
  obtain ⟨q, hq⟩ := c04_sound_proto hx (rendersAll_renderAll hex hshape) p 0 hlast h
  exact ⟨q, hq.run⟩

/-- SOUNDNESS with no assumption on where the observation list comes from: an accepted list (not
    ending in a `prev`) is the rendering of some protocol-following run of the Spec cursor; malformed
    lists (unknown op names, ill-typed answers, `prev` at an invalid position not followed by `cur`)
    are rejected. No hypothesis on `hex`. -/
theorem Judge_c04_sound_any (cmp : Cmp) (es : List Entry) (hex : Bytes → String)
    (obs : List Judge.Obs) (p : Pos) (i : Nat)
    (hlast : ∀ o, obs.getLast? = some o → o.op ≠ "prev")
    (h : Judge.c04 cmp es hex obs p i = "ok") :
    ∃ ops outs q, RendersAll hex ops outs obs ∧ ProtoRun cmp es p ops q outs :=
  c04_sound_any obs p i hlast h

/-- COMPLETENESS. Every run of the Spec cursor over a strictly sorted entry list, issued under the
    harness protocol, is accepted. -/
theorem Judge_c04_complete (cmp : Cmp) (hl : cmp.Lawful) (es : List Entry) (hs : StrictSorted cmp es)
    (hex : Bytes → String) (hx : HexOK hex)
    (p q : Pos) (ops : List IterOp) (outs : List IterOut)
    (hrun : CursorRun cmp es p ops q outs) (hp : PrevThenCur ops) :
    Judge.c04 cmp es hex (renderAll hex ops outs) p 0 = "ok" :=
  c04_complete_proto hx (nodup_of_strictSorted hl hs) (proto_of_run hrun hp) _ 0
    (rendersAll_renderAll hex (shapedAll_of_run hrun))

/-- COMPLETENESS, finer: only a `prev` issued at an invalid position needs the following `current`,
    and distinct stored entries suffice. -/
theorem Judge_c04_complete_proto (cmp : Cmp) (es : List Entry) (hnd : es.Nodup)
    (hex : Bytes → String) (hx : HexOK hex)
    (p q : Pos) (ops : List IterOp) (outs : List IterOut) (obs : List Judge.Obs)
    (hrun : ProtoRun cmp es p ops q outs) (hr : RendersAll hex ops outs obs) (i : Nat) :
    Judge.c04 cmp es hex obs p i = "ok" :=
  c04_complete_proto hx hnd hrun obs i hr

/-- Together: on observation lists produced under the harness protocol the judge decides
    `CursorRun`. -/
theorem Judge_c04_iff (cmp : Cmp) (hl : cmp.Lawful) (es : List Entry) (hs : StrictSorted cmp es)
    (hex : Bytes → String) (hx : HexOK hex)
    (ops : List IterOp) (outs : List IterOut) (obs : List Judge.Obs)
    (hr : RendersAll hex ops outs obs) (hp : PrevThenCur ops) (p : Pos) (i : Nat) :
    Judge.c04 cmp es hex obs p i = "ok" ↔ ∃ q, CursorRun cmp es p ops q outs :=
  c04_iff hx hl hs hr hp p i

/-- the same over the rendering function -/
theorem Judge_c04_iff_render (cmp : Cmp) (hl : cmp.Lawful) (es : List Entry)
    (hs : StrictSorted cmp es) (hex : Bytes → String) (hx : HexOK hex)
    (ops : List IterOp) (outs : List IterOut) (hshape : ShapedAll ops outs)
    (hp : PrevThenCur ops) (p : Pos) :
    Judge.c04 cmp es hex (renderAll hex ops outs) p 0 = "ok" ↔ ∃ q, CursorRun cmp es p ops q outs :=
  c04_iff hx hl hs (rendersAll_renderAll hex hshape) hp p 0

/-! ### C17 -/

theorem Judge_c17_iff (a b s u : Bytes) :
    Judge.c17 a b (some s) (some u) = true ↔
      ((LexLt a b → LexLe a s ∧ LexLt s b ∧ s.length ≤ a.length + 1) ∧ LexLe a u) :=
  c17_iff a b s u

/-- no successor (the implementation panicked): rejected -/
theorem Judge_c17_succ_none (a b : Bytes) (sep : Option Bytes) : Judge.c17 a b sep none = false :=
  c17_succ_none a b sep

/-- no separator although `a < b` (the implementation panicked): rejected -/
theorem Judge_c17_sep_none (a b : Bytes) (succ : Option Bytes) (h : LexLt a b) :
    Judge.c17 a b none succ = false :=
  c17_sep_none a b succ h

/-- all cases at once -/
theorem Judge_c17_true_iff (a b : Bytes) (sep succ : Option Bytes) :
    Judge.c17 a b sep succ = true ↔
      ((LexLt a b → ∃ s, sep = some s ∧ LexLe a s ∧ LexLt s b ∧ s.length ≤ a.length + 1)
        ∧ ∃ u, succ = some u ∧ LexLe a u) :=
  c17_true_iff a b sep succ

/-! ### C05 -/

/-- SOUNDNESS: every clause the judge enforces, over the table `d` the independent decoder returns.
    (`Judge.C05OK` packages exactly these clauses.) -/
theorem Judge_c05_sound (cmp : Cmp) (img : Bytes) (es : List Entry) (name : String) (isBloom : Bool)
    (h : Judge.c05 cmp img es name isBloom = "ok") :
    ∃ d, Format.decodeTable img = some d
      -- decodes exactly the entries added
      ∧ d.entries = es
      -- every data block is non-empty
      ∧ (∀ b ∈ d.blocks, b.entries ≠ [])
      -- the last key of a block is not above the block's index key
      ∧ (∀ b ∈ d.blocks, ∀ e, b.entries.getLast? = some e → cmp.cmp e.1 b.indexKey ≠ .gt)
      -- a block's index key is below the first key of the next block
      ∧ (∀ i b nb, d.blocks[i]? = some b → d.blocks[i + 1]? = some nb →
            ∀ e, nb.entries.head? = some e → cmp.cmp b.indexKey e.1 = .lt)
      -- the metaindex names the filter, its handle decodes, the filter block reads (checksum, type),
      -- and for bloom filters every key passes the filter at its block's offset
      ∧ (∃ k hv fh r fb,
            d.metaEntries.find? (·.1 = ("filter." ++ name).toUTF8.toList) = some (k, hv)
            ∧ Format.handle hv = some (fh, r) ∧ Format.block img ⟨fh.offset, fh.size⟩ = some fb
            ∧ (isBloom = true → ∀ b ∈ d.blocks, ∀ e ∈ b.entries,
                  Format.filterBlockMayMatch fb b.handle.offset e.1 = true))
      -- data blocks (with their 5-byte trailers) are laid out in index order without overlap
      ∧ (∀ i b nb, d.blocks[i]? = some b → d.blocks[i + 1]? = some nb →
            b.handle.offset + b.handle.size + 5 ≤ nb.handle.offset) := by
  obtain ⟨d, hd⟩ := (c05_ok_iff cmp img es name isBloom).mp h
  exact ⟨d, hd.decodes, hd.entries, hd.nonempty, hd.lastLeIndex, hd.indexLtNext, hd.filter, hd.ordered⟩

/-- the judge accepts exactly the files satisfying these clauses -/
theorem Judge_c05_iff (cmp : Cmp) (img : Bytes) (es : List Entry) (name : String) (isBloom : Bool) :
    Judge.c05 cmp img es name isBloom = "ok" ↔ ∃ d, C05OK cmp img es name isBloom d :=
  c05_ok_iff cmp img es name isBloom

/-- with a lawful comparator and sorted input the index-key clauses extend to every key: an index key
    is not below ANY key of its own block and is below EVERY key of the next block -/
theorem Judge_c05_bracket (cmp : Cmp) (hl : cmp.Lawful) (img : Bytes) (es : List Entry)
    (hs : StrictSorted cmp es) (name : String) (isBloom : Bool)
    (h : Judge.c05 cmp img es name isBloom = "ok") :
    ∃ d, Format.decodeTable img = some d ∧ d.entries = es
      ∧ (∀ b ∈ d.blocks, ∀ e ∈ b.entries, cmp.cmp e.1 b.indexKey ≠ .gt)
      ∧ (∀ i b nb, d.blocks[i]? = some b → d.blocks[i + 1]? = some nb →
            ∀ e ∈ nb.entries, cmp.cmp b.indexKey e.1 = .lt) := by
  obtain ⟨d, hd⟩ := (c05_ok_iff cmp img es name isBloom).mp h
  exact ⟨d, hd.decodes, hd.entries, (hd.bracket hl hs).1, (hd.bracket hl hs).2⟩

end Sst

#print axioms Sst.Judge_c04_sound
#print axioms Sst.Judge_c04_sound_any
#print axioms Sst.Judge_c04_complete
#print axioms Sst.Judge_c04_complete_proto
#print axioms Sst.Judge_c04_iff
#print axioms Sst.Judge_c04_iff_render
#print axioms Sst.Judge_c17_iff
#print axioms Sst.Judge_c17_succ_none
#print axioms Sst.Judge_c17_sep_none
#print axioms Sst.Judge_c17_true_iff
#print axioms Sst.Judge_c05_sound
#print axioms Sst.Judge_c05_iff
#print axioms Sst.Judge_c05_bracket
