import SstModel.Lemmas.BuiltRead
/-
  C04 — Iterators behave as a consistent bidirectional cursor under any call sequence.

  "For every table and every finite sequence of iterator calls (advance/next, prev from a valid
  position, seek, reset, seek-to-first, and the read-only queries), the iterator is observably
  equivalent to a cursor over the table's sorted entry list: it starts and resets to
  before-the-first, stepping past either end makes it invalid and a following advance restarts at the
  first entry, and after every call valid/current/current-key/return values agree with that cursor.
  Calling prev on an invalid iterator is unspecified, but must not crash or expose anything other than
  a stored entry, and later calls must be consistent with the position then observed."

  `Spec.CursorRun cmp es p ops q outs` (Spec/Cursor.lean) is that cursor: positions `Option Nat` into
  `es` (`none` = invalid), one deterministic step per call, except `prev` from `none`, which may go to
  any position of a stored entry or stay invalid but must report `q.isSome`.  The run of the model
  returning `.ok` excludes panics, errors and divergence.
  Quantification as in C01.lean (any `WOptsOK` writer, any compatible reader policy, any sink schedule,
  any cache capacity); reader side for arbitrary well-formed images: `reader_history` / C06.
-/
namespace Sst
open Spec

/-- C04: EVERY finite call history on a new iterator of the built table succeeds, and its outputs are
    those of a run of the Spec cursor over the input list, started before-the-first -/
theorem C04_refines (opt : WOpts) (hok : WOptsOK opt) (rp : FilterPolicy)
    (hrp : ReaderPolicyOK opt.filter rp)
    (sched : List SinkResp) (es : List (Bytes × Bytes)) (t0 : TableBuilder) (n : Nat)
    (hb : TableBuilder.build opt { sched := sched } es = (t0, .ok n)) (hn : n < 2 ^ 32)
    (hsz : opt.compression = 1 → sizeBound opt es < 2 ^ 32)
    (w : World) (file : Nat) (hcw : CleanWorld w file t0.sink.received) (hempty : w.cache.entries = []) :
    ∃ w1 tb it, Table.new ⟨opt.cmp, rp⟩ file n w = (w1, .ok tb) ∧ TableIter.new tb w1 = (w1, .ok it)
      ∧ ∀ ops : List IterOp, ∃ w2 it2 p2 outs, it.run ops w1 = (w2, .ok (it2, outs))
            ∧ CursorRun opt.cmp es none ops p2 outs := by
  obtain ⟨_, _, w1, tb, it, hnew, hit, _, _, _, hhist⟩ :=
    built_table_reads_back opt hok rp hrp sched es t0 n hb hn hsz w file hcw hempty
  exact ⟨w1, tb, it, hnew, hit, hhist⟩

/-- C04, initial state: a new iterator is before-the-first — not valid, no current entry, no current
    key — and creating it does not touch the world -/
theorem C04_init (opt : WOpts) (hok : WOptsOK opt) (rp : FilterPolicy)
    (hrp : ReaderPolicyOK opt.filter rp)
    (sched : List SinkResp) (es : List (Bytes × Bytes)) (t0 : TableBuilder) (n : Nat)
    (hb : TableBuilder.build opt { sched := sched } es = (t0, .ok n)) (hn : n < 2 ^ 32)
    (hsz : opt.compression = 1 → sizeBound opt es < 2 ^ 32)
    (w : World) (file : Nat) (hcw : CleanWorld w file t0.sink.received) (hempty : w.cache.entries = []) :
    ∃ w1 tb it, Table.new ⟨opt.cmp, rp⟩ file n w = (w1, .ok tb) ∧ TableIter.new tb w1 = (w1, .ok it)
      ∧ ∃ w2 it2, it.run [.valid, .current, .currentKey] w1
            = (w2, .ok (it2, [.flag false, .entry none, .key none])) := by
  obtain ⟨w1, tb, it, hnew, hit, hhist⟩ :=
    C04_refines opt hok rp hrp sched es t0 n hb hn hsz w file hcw hempty
  obtain ⟨w2, it2, p2, outs, hrun, hcr⟩ := hhist [.valid, .current, .currentKey]
  rw [(cursorRun_init opt.cmp es p2 outs hcr).1] at hrun
  exact ⟨w1, tb, it, hnew, hit, w2, it2, hrun⟩

-- the Spec cursor behaves as the property describes: stepping past the end makes it invalid and a
-- following `next` restarts at the first entry; stepping off the front likewise
example (cmp : Cmp) (a b : Bytes) :
    CursorRun cmp [(a, b)] none [.next, .next, .valid, .next, .prev, .valid, .advance] (some 0)
      [.entry (some (a, b)), .entry none, .flag false, .entry (some (a, b)), .flag false, .flag false,
       .flag true] :=
  .cons (.next none) (.cons (.next (some 0)) (.cons (.valid none) (.cons (.next none)
    (.cons (.prevValid 0) (.cons (.valid none) (.cons (.advance none) (.nil _)))))))

-- `reset` returns to before-the-first from anywhere
example (cmp : Cmp) (a b : Bytes) :
    CursorRun cmp [(a, b)] none [.seekToFirst, .reset, .valid] none [.unit, .unit, .flag false] :=
  .cons (.seekToFirst none) (.cons (.reset (some 0)) (.cons (.valid none) (.nil _)))

end Sst

#print axioms Sst.C04_refines
#print axioms Sst.C04_init
