import SstModel.Lemmas.Builder
/-
  C16 — Keys offered out of order are rejected at that call, wherever block boundaries fall.

  `TableBuilder.add` compares the offered key with the most recently added key — the last key of the
  pending data block if it has entries, else the last key of the block written before it — and panics
  unless the comparator says "less". The theorems quantify over every writer configuration (block size,
  restart interval, compression, filter policy, comparator — no comparator laws are assumed) and every
  sink schedule, so they cover the offending key landing inside a block as well as on a block boundary.
-/
namespace Sst
open TableBuilder

/-- C16: after any successful sequence of additions ending with key k, offering a key that is not
    strictly greater than k is refused by a panic at that very call — for every writer configuration
    (block size, restart interval, compression, filter policy, comparator) and every sink. -/
theorem C16_rejects (opt : WOpts) (sink : Sink) (pre : List (Bytes × Bytes)) (k v key val : Bytes)
    (t : TableBuilder)
    (h : (TableBuilder.new opt sink).addAll (pre ++ [(k, v)]) = (t, .ok ()))
    (hbad : opt.cmp.cmp k key ≠ .lt) :
    ∃ site, (t.add key val).2 = .panic site := by
  obtain ⟨htr, hopt⟩ := addAll_ok_tracked h
  apply add_rejects htr
  rw [hopt]
  exact hbad

/-- consequently a sequence all of whose additions succeeded is strictly sorted -/
theorem C16_accepted_sorted (opt : WOpts) (sink : Sink) (es : List (Bytes × Bytes)) (t : TableBuilder)
    (h : (TableBuilder.new opt sink).addAll es = (t, .ok ())) : Spec.StrictSorted opt.cmp es :=
  addAll_ok_sorted h

/-- … in particular every table that finishes successfully -/
theorem C16_finished_sorted (opt : WOpts) (sink : Sink) (es : List (Bytes × Bytes)) (t : TableBuilder)
    (n : Nat) (h : TableBuilder.build opt sink es = (t, .ok n)) : Spec.StrictSorted opt.cmp es := by
  obtain ⟨t1, ha, _⟩ := build_ok_inv h
  exact C16_accepted_sorted opt sink es t1 ha

/-! Non-vacuity (tests, labelled as such). Concrete runs are evaluated by the kernel
(`decide +kernel`: plain `decide` cannot unfold the well-founded `encodeVarint`; no extra axioms). -/

-- block size 0: every key after the first starts a new block, so the offending key would fall on a
-- block boundary (two blocks have been written: offset > 0); sink with a non-trivial schedule
example : ∃ t, (TableBuilder.new (exampleOpts 0 noFilterPolicy) { sched := [.interrupted, .accept 1] }).addAll exampleEntries
      = (t, .ok ()) :=
  exists_ok_unit_of_isOk _ (by decide +kernel)
example : 0 < ((TableBuilder.new (exampleOpts 0 noFilterPolicy) {}).addAll exampleEntries).1.offset := by decide +kernel
example : (exampleOpts 0 noFilterPolicy).cmp.cmp [3, 5] [3, 5] ≠ .lt ∧
    (exampleOpts 0 noFilterPolicy).cmp.cmp [3, 5] [3] ≠ .lt := by decide
-- … and the conclusion on that run, evaluated directly (equal key, smaller key)
example : (((TableBuilder.new (exampleOpts 0 noFilterPolicy) {}).addAll exampleEntries).1.add [3, 5] [0]).2.isPanic = true
    ∧ (((TableBuilder.new (exampleOpts 0 noFilterPolicy) {}).addAll exampleEntries).1.add [3] [0]).2.isPanic = true := by
  decide +kernel

-- block size 1000: nothing is flushed (offset = 0), the offending key would fall inside the pending block
example : ∃ t, (TableBuilder.new (exampleOpts 1000 (Bloom.policy 10)) {}).addAll exampleEntries = (t, .ok ()) :=
  exists_ok_unit_of_isOk _ (by decide +kernel)
example : ((TableBuilder.new (exampleOpts 1000 (Bloom.policy 10)) {}).addAll exampleEntries).1.offset = 0 := by
  decide +kernel
example : (((TableBuilder.new (exampleOpts 1000 (Bloom.policy 10)) {}).addAll exampleEntries).1.add [3, 5] [0]).2.isPanic
    = true := by decide +kernel

-- hypothesis of `C16_finished_sorted`: a whole table built and finished (bloom filter, block size 20)
example : ∃ t n, TableBuilder.build (exampleOpts 20 (Bloom.policy 10)) {} (exampleEntries ++ [([3, 5, 0], [40])])
      = (t, .ok n) :=
  exists_ok_of_isOk _ (by decide +kernel)

-- and an out-of-order sequence is indeed not accepted (the theorems are not about an always-failing writer
-- nor an always-accepting one)
example : ((TableBuilder.new (exampleOpts 0 noFilterPolicy) {}).addAll [([2], [20]), ([1], [10])]).2.isPanic
    = true := by decide +kernel

end Sst

#print axioms Sst.C16_rejects
#print axioms Sst.C16_accepted_sorted
#print axioms Sst.C16_finished_sorted
