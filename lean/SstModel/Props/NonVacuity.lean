import SstModel.Lemmas.Witnesses
import SstModel.Props.C01
import SstModel.Props.C02
import SstModel.Props.C03
import SstModel.Props.C04
import SstModel.Props.C05
import SstModel.Props.C19
import SstModel.Props.C06
import SstModel.Props.C09
import SstModel.Props.C10
import SstModel.Props.C11
import SstModel.Props.C12Fine
import SstModel.Props.C13
import SstModel.Props.C15
import SstModel.Props.C16
import SstModel.Props.C17
import SstModel.Props.C18
import SstModel.Props.C20
/-
  NON-VACUITY of the property theorems, machine checked.

  Every headline theorem is an implication.  Here each one is instantiated on concrete, non-trivial data:
  its hypotheses are discharged (by the configuration lemmas and by kernel evaluation, `decide +kernel`,
  which adds no axiom) and its conclusion is spelled out on that data.  Where the model itself can be run
  by the kernel, the same facts are ALSO obtained by direct evaluation, as an independent cross-check
  (`…_eval` theorems).

  The data (Lemmas/Witnesses.lean): `NV.opts` — bytewise comparator, bloom filter with 10 bits per key,
  restart interval 2, block size 16, no compression; `NV.entries` — six entries, among them the empty
  key, an empty value, keys ending in 0xff; `NV.img` — the 232 bytes the model writer hands to a perfect
  sink: data blocks at 0 / 31 / 55, filter block at 73, metaindex at 96, index at 148, footer at 184;
  `NV.world` — file 0 holds `NV.img`, empty cache of capacity 4, no read faults.
-/
namespace Sst
open Spec

namespace NV

theorem pair_ok_inj {α : Type} {w w' : World} {a a' : α} (h : (w, Res.ok a) = (w', Res.ok a')) :
    w = w' ∧ a = a' := by
  cases h; exact ⟨rfl, rfl⟩

/-- a history without blind `prev`: the outputs the Spec cursor allows are the deterministic ones -/
theorem history_det {cmp : Cmp} {es : List Entry} {it : TableIter} {w1 : World}
    (hhist : ∀ ops : List IterOp, ∃ w2 it2 p2 outs, it.run ops w1 = (w2, .ok (it2, outs))
        ∧ CursorRun cmp es none ops p2 outs)
    (ops : List IterOp) (hn : NoBlindPrev cmp es none ops) :
    ∃ w2 it2, it.run ops w1 = (w2, .ok (it2, (detRun cmp es none ops).2))
      ∧ CursorRun cmp es none ops (detRun cmp es none ops).1 (detRun cmp es none ops).2 := by
  obtain ⟨w2, it2, p2, outs, hrun, hcr⟩ := hhist ops
  have h := CS.cursorRun_det cmp es ops none p2 outs hcr hn
  have h1 : p2 = (detRun cmp es none ops).1 := congrArg Prod.fst h
  have h2 : outs = (detRun cmp es none ops).2 := congrArg Prod.snd h
  subst h1 h2
  exact ⟨w2, it2, hrun, hcr⟩

end NV

/-! ### C01 – C04, C19: the table built in the default style (bloom filter) -/

/-- `C01_roundtrip` on `NV.opts` / `NV.entries` / perfect sink / `NV.world`: the build reports 232 bytes,
    which is what the sink received; 6 entries counted; the file opens; 7 calls of `next` return the six
    entries in order (empty key first, the empty value intact), then `None`.
    Hypotheses: `WOptsOK` by `wOptsOK_bloom`, `hb` by kernel evaluation of `TableBuilder.build`. -/
theorem C01_instance :
    ∃ (t0 : TableBuilder) (w1 : World) (tb : Table) (it : TableIter),
      TableBuilder.build NV.opts {} NV.entries = (t0, .ok 232) ∧ t0.sink.received = NV.img
      ∧ t0.sink.received.length = 232 ∧ t0.numEntries = 6
      ∧ Table.new ⟨defaultCmp, Bloom.policy 10⟩ 0 232 NV.world = (w1, .ok tb)
      ∧ TableIter.new tb w1 = (w1, .ok it)
      ∧ ∃ w2 it2, it.run (List.replicate 7 IterOp.next) w1
          = (w2, .ok (it2, [.entry (some ([], [7])), .entry (some ([1], [])), .entry (some ([1, 2], [12])),
              .entry (some ([3], [30, 31])), .entry (some ([3, 0xff], [9])), .entry (some ([5], [50])),
              .entry none])) := by
  obtain ⟨t0, hb, hrec⟩ := NV.built
  obtain ⟨hlen, hnum, w1, tb, it, hnew, hit, hscan⟩ :=
    C01_roundtrip NV.opts NV.opts_ok (Bloom.policy 10) (readerPolicyOK_refl _) [] NV.entries t0 232 hb
      (by decide) (fun h => absurd h (by decide)) NV.world 0 (hrec ▸ NV.world_clean) rfl
  exact ⟨t0, w1, tb, it, hb, hrec, hlen.symm, hnum, hnew, hit, hscan⟩

/-- `C01_roundtrip` under EXACTLY the crate's default options — block size 4096, restart interval 16, no
    compression, bloom filter with `Consts.defaultBitsPerKey` bits per key (the constants regenerated from
    the source) — on the same six entries (one data block): hypotheses discharged in the same way, the build
    evaluated by the kernel (185 bytes), the scan returns the six entries. -/
theorem C01_instance_crate_default :
    ∃ (t0 : TableBuilder) (w1 : World) (tb : Table) (it : TableIter),
      TableBuilder.build
          { cmp := defaultCmp, blockSize := Consts.defaultBlockSize,
            restartInterval := Consts.defaultRestartInterval, compression := Consts.compressionNone,
            filter := Bloom.policy Consts.defaultBitsPerKey, compress := id } {} NV.entries = (t0, .ok 185)
      ∧ t0.sink.received.length = 185 ∧ t0.numEntries = 6
      ∧ Table.new ⟨defaultCmp, Bloom.policy Consts.defaultBitsPerKey⟩ 0 185
          { files := [t0.sink.received], cache := { cap := 8 } } = (w1, .ok tb)
      ∧ TableIter.new tb w1 = (w1, .ok it)
      ∧ ∃ w2 it2, it.run (List.replicate 7 IterOp.next) w1
          = (w2, .ok (it2, [.entry (some ([], [7])), .entry (some ([1], [])), .entry (some ([1, 2], [12])),
              .entry (some ([3], [30, 31])), .entry (some ([3, 0xff], [9])), .entry (some ([5], [50])),
              .entry none])) := by
  have hev : NV.okSizeB (TableBuilder.build
      { cmp := defaultCmp, blockSize := Consts.defaultBlockSize,
        restartInterval := Consts.defaultRestartInterval, compression := Consts.compressionNone,
        filter := Bloom.policy Consts.defaultBitsPerKey, compress := id } {} NV.entries) 185 = true := by
    decide +kernel
  have hb := NV.okSizeB_sound hev
  obtain ⟨hlen, hnum, w1, tb, it, hnew, hit, hscan⟩ :=
    C01_roundtrip _ (wOptsOK_bloom Consts.defaultBlockSize Consts.defaultRestartInterval (by decide)
        Consts.defaultBitsPerKey id) (Bloom.policy Consts.defaultBitsPerKey) (readerPolicyOK_refl _) []
      NV.entries _ 185 hb (by decide) (fun h => absurd h (by decide))
      { files := [_], cache := { cap := 8 } } 0 ⟨rfl, rfl⟩ rfl
  exact ⟨_, w1, tb, it, hb, hlen.symm, hnum, hnew, hit, hscan⟩

/-- `C02_get` on the same table: stored keys (the empty key; the key with the empty value; a key ending
    in 0xff) yield their values; absent keys yield `None` — `[2]` lies between the last key of data block
    0 and the first key of block 1 and EQUALS block 0's index key; `[3, 7]` lies between two keys of one
    block; `[0]` between the empty key and `[1]`; `[9]` is above every key and every index key.  All
    lookups go through the bloom filter (the reader policy is the writer's). -/
theorem C02_instance :
    ∃ (w1 : World) (tb : Table),
      Table.new ⟨defaultCmp, Bloom.policy 10⟩ 0 232 NV.world = (w1, .ok tb)
      ∧ (∃ w2, tb.get [] w1 = (w2, .ok (some [7])))
      ∧ (∃ w2, tb.get [1] w1 = (w2, .ok (some [])))
      ∧ (∃ w2, tb.get [3, 0xff] w1 = (w2, .ok (some [9])))
      ∧ (∃ w2, tb.get [5] w1 = (w2, .ok (some [50])))
      ∧ (∃ w2, tb.get [2] w1 = (w2, .ok none))
      ∧ (∃ w2, tb.get [3, 7] w1 = (w2, .ok none))
      ∧ (∃ w2, tb.get [0] w1 = (w2, .ok none))
      ∧ (∃ w2, tb.get [9] w1 = (w2, .ok none)) := by
  obtain ⟨t0, hb, hrec⟩ := NV.built
  obtain ⟨w1, tb, hnew, hget⟩ :=
    C02_get NV.opts NV.opts_ok (Bloom.policy 10) (readerPolicyOK_refl _) [] NV.entries t0 232 hb
      (by decide) (fun h => absurd h (by decide)) NV.world 0 (hrec ▸ NV.world_clean) rfl
  have l0 : Spec.lookup defaultCmp NV.entries [] = some [7] := by decide
  have l1 : Spec.lookup defaultCmp NV.entries [1] = some [] := by decide
  have l2 : Spec.lookup defaultCmp NV.entries [3, 0xff] = some [9] := by decide
  have l3 : Spec.lookup defaultCmp NV.entries [5] = some [50] := by decide
  have l4 : Spec.lookup defaultCmp NV.entries [2] = none := by decide
  have l5 : Spec.lookup defaultCmp NV.entries [3, 7] = none := by decide
  have l6 : Spec.lookup defaultCmp NV.entries [0] = none := by decide
  have l7 : Spec.lookup defaultCmp NV.entries [9] = none := by decide
  exact ⟨w1, tb, hnew, l0 ▸ hget [], l1 ▸ hget [1], l2 ▸ hget [3, 0xff], l3 ▸ hget [5], l4 ▸ hget [2],
    l5 ▸ hget [3, 7], l6 ▸ hget [0], l7 ▸ hget [9]⟩

/-- `C04_refines` on the same table, a 6-call history crossing a block boundary in both directions:
    `next, next` (entries 0, 1 of block 0), `seek [2,5]` (above block 0's index key `[2]`: the first entry
    of block 1), `prev` (back over the block boundary: the LAST entry of block 0), `current_key`, `advance`.
    The run succeeds with exactly the outputs of the Spec cursor, which ends at position 3. -/
theorem C04_instance :
    ∃ (w1 : World) (tb : Table) (it : TableIter) (w2 : World) (it2 : TableIter),
      Table.new ⟨defaultCmp, Bloom.policy 10⟩ 0 232 NV.world = (w1, .ok tb)
      ∧ TableIter.new tb w1 = (w1, .ok it)
      ∧ it.run [.next, .next, .seek [2, 5], .prev, .currentKey, .advance] w1
          = (w2, .ok (it2, [.entry (some ([], [7])), .entry (some ([1], [])), .unit, .flag true,
                            .key (some [1, 2]), .flag true]))
      ∧ CursorRun defaultCmp NV.entries none [.next, .next, .seek [2, 5], .prev, .currentKey, .advance]
          (some 3) [.entry (some ([], [7])), .entry (some ([1], [])), .unit, .flag true,
                    .key (some [1, 2]), .flag true] := by
  obtain ⟨t0, hb, hrec⟩ := NV.built
  obtain ⟨w1, tb, it, hnew, hit, hhist⟩ :=
    C04_refines NV.opts NV.opts_ok (Bloom.policy 10) (readerPolicyOK_refl _) [] NV.entries t0 232 hb
      (by decide) (fun h => absurd h (by decide)) NV.world 0 (hrec ▸ NV.world_clean) rfl
  obtain ⟨w2, it2, hrun, hcr⟩ := NV.history_det hhist
    [.next, .next, .seek [2, 5], .prev, .currentKey, .advance] ⟨rfl, rfl, rfl, rfl, rfl, rfl, trivial⟩
  exact ⟨w1, tb, it, w2, it2, hnew, hit, hrun, hcr⟩

/-- `C03_seek` on the same table.  Prior history: five `next` calls (the iterator stands on entry 4, in
    block 1).  Then `seek [1, 3]`: the target is above the last key `[1, 2]` of block 0 but not above its
    index key `[2]`, so the index sends the reader to block 0, where nothing is ≥ the target — the iterator
    lands on the FIRST ENTRY OF THE NEXT BLOCK, `([3], [30, 31])`.  On a new iterator: `seek [2, 5]` (above
    the index key) lands on the same entry; `seek []` on the first entry; `seek [5, 1]` (above all keys)
    leaves the iterator invalid. -/
theorem C03_instance :
    ∃ (w1 : World) (tb : Table) (it : TableIter),
      Table.new ⟨defaultCmp, Bloom.policy 10⟩ 0 232 NV.world = (w1, .ok tb)
      ∧ TableIter.new tb w1 = (w1, .ok it)
      ∧ (∃ wa ita w2 it2,
          it.run (List.replicate 5 IterOp.next) w1
            = (wa, .ok (ita, [.entry (some ([], [7])), .entry (some ([1], [])), .entry (some ([1, 2], [12])),
                .entry (some ([3], [30, 31])), .entry (some ([3, 0xff], [9]))]))
          ∧ it.run (List.replicate 5 IterOp.next ++ [.seek [1, 3], .current, .valid]) w1
            = (w2, .ok (it2, [.entry (some ([], [7])), .entry (some ([1], [])), .entry (some ([1, 2], [12])),
                .entry (some ([3], [30, 31])), .entry (some ([3, 0xff], [9]))]
                ++ [.unit, .entry (some ([3], [30, 31])), .flag true])))
      ∧ (∃ w2 it2, it.run [.seek [2, 5], .current, .valid] w1
            = (w2, .ok (it2, [.unit, .entry (some ([3], [30, 31])), .flag true])))
      ∧ (∃ w2 it2, it.run [.seek [], .current, .valid] w1
            = (w2, .ok (it2, [.unit, .entry (some ([], [7])), .flag true])))
      ∧ (∃ w2 it2, it.run [.seek [5, 1], .current, .valid] w1
            = (w2, .ok (it2, [.unit, .entry none, .flag false]))) := by
  obtain ⟨t0, hb, hrec⟩ := NV.built
  obtain ⟨w1, tb, it, hnew, hit, hseek⟩ :=
    C03_seek NV.opts NV.opts_ok (Bloom.policy 10) (readerPolicyOK_refl _) [] NV.entries t0 232 hb
      (by decide) (fun h => absurd h (by decide)) NV.world 0 (hrec ▸ NV.world_clean) rfl
  -- the outputs of the prior history, from C04 (same handle and iterator: the equations determine them)
  obtain ⟨w1', tb', it', hnew', hit', hhist⟩ :=
    C04_refines NV.opts NV.opts_ok (Bloom.policy 10) (readerPolicyOK_refl _) [] NV.entries t0 232 hb
      (by decide) (fun h => absurd h (by decide)) NV.world 0 (hrec ▸ NV.world_clean) rfl
  obtain ⟨rfl, rfl⟩ := NV.pair_ok_inj (hnew'.symm.trans hnew)
  obtain ⟨_, rfl⟩ := NV.pair_ok_inj (hit'.symm.trans hit)
  obtain ⟨wh, ith, hrunh, _⟩ := NV.history_det hhist (List.replicate 5 IterOp.next)
    ⟨rfl, rfl, rfl, rfl, rfl, trivial⟩
  refine ⟨w1', tb', it', hnew, hit, ?_, ?_, ?_, ?_⟩
  · obtain ⟨wa, ita, outs, w2, it2, h1, h2⟩ := hseek (List.replicate 5 IterOp.next) [1, 3]
    have he : outs = _ := congrArg Prod.snd (NV.pair_ok_inj (h1.symm.trans hrunh)).2
    subst he
    exact ⟨wa, ita, w2, it2, h1, h2⟩
  · obtain ⟨_, _, outs, w2, it2, h1, h2⟩ := hseek [] [2, 5]
    cases h1
    exact ⟨w2, it2, h2⟩
  · obtain ⟨_, _, outs, w2, it2, h1, h2⟩ := hseek [] []
    cases h1
    exact ⟨w2, it2, h2⟩
  · obtain ⟨_, _, outs, w2, it2, h1, h2⟩ := hseek [] [5, 1]
    cases h1
    exact ⟨w2, it2, h2⟩

/-- `C19_approx` on the same table.  The image `t` of the 232 bytes has three data blocks, at offsets 0, 31
    and 55 (read off the bytes by the independent block parser, `NV.img_blocks`); clause (a) gives the
    approximate offset of every stored key — 0, 0, 0, 31, 31, 55 —, clause (d) gives 96 (the metaindex
    offset, past the end 55 + 13 + 5 of the last data block) for `[9]`, above the last index key `[5, 0]`;
    all offsets are within the file (b) and monotone in the key (c), in particular along the stored keys. -/
theorem C19_instance :
    ∃ (t : TableImg) (w1 : World) (tb : Table) (approx : Bytes → Nat),
      t.img = NV.img ∧ t.WF defaultCmp ∧ t.entries = NV.entries
      ∧ t.blocks.map (·.handle) = [⟨0, 26⟩, ⟨31, 19⟩, ⟨55, 13⟩]
      ∧ t.blocks.map (·.keys) = [[[], [1], [1, 2]], [[3], [3, 0xff]], [[5]]]
      ∧ t.seps = [[2], [4], [5, 0]] ∧ t.metaHandle = ⟨96, 47⟩
      ∧ Table.new ⟨defaultCmp, Bloom.policy 10⟩ 0 232 NV.world = (w1, .ok tb)
      ∧ (∀ k, tb.approxOffsetOf k w1 = (w1, .ok (approx k)))
      ∧ approx [] = 0 ∧ approx [1] = 0 ∧ approx [1, 2] = 0
      ∧ approx [3] = 31 ∧ approx [3, 0xff] = 31 ∧ approx [5] = 55
      ∧ approx [9] = 96
      ∧ (∀ k, approx k ≤ 232)
      ∧ (∀ k1 k2, defaultCmp.cmp k1 k2 ≠ .gt → approx k1 ≤ approx k2)
      ∧ approx [] ≤ approx [1] ∧ approx [1] ≤ approx [1, 2] ∧ approx [1, 2] ≤ approx [3]
      ∧ approx [3] ≤ approx [3, 0xff] ∧ approx [3, 0xff] ≤ approx [5] ∧ approx [5] ≤ approx [9] := by
  obtain ⟨t0, hb, hrec⟩ := NV.built
  obtain ⟨t, w1, tb, approx, himg, twf, hent, hnew, happrox, ha, _, hrange, hmono, hpast⟩ :=
    C19_approx NV.opts NV.opts_ok (Bloom.policy 10) (readerPolicyOK_refl _) [] NV.entries t0 232 hb
      (by decide) (fun h => absurd h (by decide)) NV.world 0 (hrec ▸ NV.world_clean) rfl
  have himg' : t.img = NV.img := himg.trans hrec
  have twf' : t.WF defaultCmp := twf
  obtain ⟨d0, d1, d2, hbl, h0, h1, h2, k0, k1, k2, s0, s1, s2, hmh, _⟩ := NV.img_blocks twf' himg'
  have hm0 : d0 ∈ t.blocks := by rw [hbl]; simp
  have hm1 : d1 ∈ t.blocks := by rw [hbl]; simp
  have hm2 : d2 ∈ t.blocks := by rw [hbl]; simp
  have hseps : t.seps = [[2], [4], [5, 0]] := by
    show t.blocks.map (·.sep) = _
    rw [hbl]; simp [s0, s1, s2]
  have a0 : approx [] = 0 := by rw [ha d0 hm0 [] (by rw [k0]; simp), h0]
  have a1 : approx [1] = 0 := by rw [ha d0 hm0 [1] (by rw [k0]; simp), h0]
  have a2 : approx [1, 2] = 0 := by rw [ha d0 hm0 [1, 2] (by rw [k0]; simp), h0]
  have a3 : approx [3] = 31 := by rw [ha d1 hm1 [3] (by rw [k1]; simp), h1]
  have a4 : approx [3, 0xff] = 31 := by rw [ha d1 hm1 [3, 0xff] (by rw [k1]; simp), h1]
  have a5 : approx [5] = 55 := by rw [ha d2 hm2 [5] (by rw [k2]; simp), h2]
  have a6 : approx [9] = 96 := by
    have := (hpast [9] (by rw [hseps]; decide)).1
    rw [this, hmh]
  have hmono' : ∀ k1 k2, defaultCmp.cmp k1 k2 ≠ .gt → approx k1 ≤ approx k2 := hmono
  refine ⟨t, w1, tb, approx, himg', twf', hent, by rw [hbl]; simp [h0, h1, h2],
    by rw [hbl]; simp [k0, k1, k2], hseps, hmh, hnew, happrox, a0, a1, a2, a3, a4, a5, a6, hrange, hmono',
    hmono' _ _ (by decide), hmono' _ _ (by decide), hmono' _ _ (by decide), hmono' _ _ (by decide),
    hmono' _ _ (by decide), hmono' _ _ (by decide)⟩

/-! ### C05: the image is a LevelDB table for the independent decoder -/

/-- `C05_conforms_bloom` on the same build: the conformance judge (independent decoder; entries; index keys
    bracket their blocks; metaindex names the filter; every key passes the independently computed bloom
    filter of its block; block layout) answers "ok" on `NV.img`; and `C05_decodes`. -/
theorem C05_instance :
    Judge.c05 defaultCmp NV.img NV.entries (Bloom.policy 10).name true = "ok"
      ∧ ∃ d, Spec.Format.decodeTable NV.img = some d ∧ d.entries = NV.entries := by
  obtain ⟨t0, hb, hrec⟩ := NV.built
  constructor
  · have := C05_conforms_bloom 16 2 (by decide) 10 id [] NV.entries t0 232 hb (by decide)
    rw [hrec] at this
    exact this
  · have := C05_decodes NV.opts NV.opts_ok [] NV.entries t0 232 hb (by decide) (fun h => absurd h (by decide))
    rw [hrec] at this
    exact this

/-- independent cross-check: the judge RUN by the kernel on the 232 bytes (nothing of the proof of
    `C05_conforms` is used) -/
theorem C05_instance_eval :
    Judge.c05 defaultCmp NV.img NV.entries (Bloom.policy 10).name true = "ok" := by decide +kernel

/-- … and the judge is not an always-"ok" function: with the value byte of the second entry of block 1
    (offset 41) changed it rejects the file, and on the intact file it rejects a wrong entry list -/
theorem C05_judge_discriminates :
    Judge.c05 defaultCmp (NV.img.take 41 ++ [10] ++ NV.img.drop 42) NV.entries (Bloom.policy 10).name true
        = "independent decoder rejects the file"
      ∧ Judge.c05 defaultCmp NV.img (NV.entries.take 5) (Bloom.policy 10).name true
        = "decoded entries differ from the entries added" := by decide +kernel

/-- C01 – C04, C19 again, this time by RUNNING the model reader in the kernel on the 232 bytes (nothing of
    the proofs of the general theorems is used): the same scan, histories, lookups and approximate offsets
    as in the instances above.  Extra observations: the approximate offset of `[5, 0]` — above every stored
    key, equal to the last index key — is the START of the last block (finding F4 of C19); a lookup of a
    stored key reads the file once, the lookups of the absent keys `[2]`, `[3, 7]`, `[0]`, `[9]` not at all. -/
theorem C01_C04_C19_instance_eval :
    ∃ (w1 : World) (tb : Table) (it : TableIter),
      Table.new ⟨defaultCmp, Bloom.policy 10⟩ 0 232 NV.world = (w1, .ok tb)
      ∧ TableIter.new tb w1 = (w1, .ok it)
      ∧ (∃ w2 it2, it.run (List.replicate 7 IterOp.next) w1
          = (w2, .ok (it2, [.entry (some ([], [7])), .entry (some ([1], [])), .entry (some ([1, 2], [12])),
              .entry (some ([3], [30, 31])), .entry (some ([3, 0xff], [9])), .entry (some ([5], [50])),
              .entry none])))
      ∧ (∃ w2 it2, it.run [.next, .next, .seek [2, 5], .prev, .currentKey, .advance] w1
          = (w2, .ok (it2, [.entry (some ([], [7])), .entry (some ([1], [])), .unit, .flag true,
                            .key (some [1, 2]), .flag true])))
      ∧ (∃ w2 it2, it.run (List.replicate 5 IterOp.next ++ [.seek [1, 3], .current, .valid]) w1
          = (w2, .ok (it2, [.entry (some ([], [7])), .entry (some ([1], [])), .entry (some ([1, 2], [12])),
              .entry (some ([3], [30, 31])), .entry (some ([3, 0xff], [9])),
              .unit, .entry (some ([3], [30, 31])), .flag true])))
      ∧ (tb.get [] w1).2 = .ok (some [7]) ∧ (tb.get [1] w1).2 = .ok (some [])
      ∧ (tb.get [3, 0xff] w1).2 = .ok (some [9]) ∧ (tb.get [2] w1).2 = .ok none
      ∧ (tb.get [3, 7] w1).2 = .ok none ∧ (tb.get [9] w1).2 = .ok none
      ∧ (tb.approxOffsetOf [] w1).2 = .ok 0 ∧ (tb.approxOffsetOf [1, 2] w1).2 = .ok 0
      ∧ (tb.approxOffsetOf [3] w1).2 = .ok 31 ∧ (tb.approxOffsetOf [3, 0xff] w1).2 = .ok 31
      ∧ (tb.approxOffsetOf [5] w1).2 = .ok 55 ∧ (tb.approxOffsetOf [9] w1).2 = .ok 96
      ∧ (tb.approxOffsetOf [5, 0] w1).2 = .ok 55
      ∧ NV.getReads tb [3] w1 = 1 ∧ NV.getReads tb [2] w1 = 0 ∧ NV.getReads tb [3, 7] w1 = 0
      ∧ NV.getReads tb [0] w1 = 0 ∧ NV.getReads tb [9] w1 = 0 := by
  obtain ⟨_, w1, tb, it, _, _, _, _, hnew, hit, _⟩ := C01_instance
  have h := NV.withOpened_of hnew hit NV.reader_eval
  simp only [Bool.and_eq_true, beq_iff_eq] at h
  obtain ⟨⟨⟨⟨⟨⟨⟨⟨⟨⟨⟨⟨⟨⟨⟨⟨⟨⟨⟨⟨⟨⟨⟨⟨r1, r2⟩, r3⟩, _⟩, g1⟩, g2⟩, g3⟩, _⟩, g5⟩, g6⟩, _⟩, g8⟩, a1⟩, _⟩, a3⟩, a4⟩, a5⟩, a6⟩,
    a7⟩, a8⟩, n1⟩, n2⟩, n3⟩, n4⟩, n5⟩ := h
  exact ⟨w1, tb, it, hnew, hit, FT.runB_sound r1, FT.runB_sound r2, FT.runB_sound r3, FT.getB_sound g1,
    FT.getB_sound g2, FT.getB_sound g3, FT.getB_sound g5, FT.getB_sound g6, FT.getB_sound g8,
    NV.approxB_sound a1, NV.approxB_sound a3, NV.approxB_sound a4, NV.approxB_sound a5, NV.approxB_sound a6,
    NV.approxB_sound a7, NV.approxB_sound a8, n1, n2, n3, n4, n5⟩

/-! ### C06: a table the crate's writer cannot emit -/

/-- The hypotheses of `C06_reader` hold of `Hand.img`, 301 bytes assembled by hand (Lemmas/Witnesses.lean):
    restart interval 1 and NO prefix sharing in every block; index keys EQUAL to the last key of their
    block; the data block with the smaller keys placed BEHIND the other one, with 120 bytes of padding in
    between; two unknown metaindex keys and no filter entry.  `WFTable` is established by the checker
    `Spec.Format.wfTableB` (independent decoder + order clauses), run by the kernel.  That the model writer
    cannot have produced the image is witnessed by the conformance judge of C05, which (by `C05_conforms`)
    answers "ok" on every image a `WOptsOK` writer produces. -/
theorem C06_nonvacuous :
    Spec.Format.WFTable defaultCmp Hand.img (Spec.Format.decoded Hand.img)
      ∧ defaultCmp.Lawful
      ∧ FilterCompat defaultCmp (Bloom.policy 10) Hand.img (Spec.Format.decoded Hand.img)
      ∧ FilterCompat defaultCmp noFilterPolicy Hand.img (Spec.Format.decoded Hand.img)
      ∧ CleanWorld Hand.world 0 Hand.img ∧ Hand.world.cache.entries = []
      ∧ Hand.img.length = 301
      ∧ (Spec.Format.decoded Hand.img).entries
          = [([0x61], [1]), ([0x61, 0x62], [2]), ([0x62], []), ([0x63, 0xff], [3, 4])]
      ∧ (Spec.Format.decoded Hand.img).blocks.map (fun b => (b.handle, b.indexKey, b.restarts))
          = [(⟨148, 23⟩, [0x61, 0x62], [0, 5]), (⟨0, 23⟩, [0x63, 0xff], [0, 4])]
      ∧ (Spec.Format.decoded Hand.img).blocks.map (fun b => b.entries.getLast?.map (·.1))
          = [some [0x61, 0x62], some [0x63, 0xff]]
      ∧ (Spec.Format.decoded Hand.img).metaEntries = Hand.metaKVs
      ∧ Judge.c05 defaultCmp Hand.img (Spec.Format.decoded Hand.img).entries (Bloom.policy 10).name true
          = "metaindex has no entry for the filter" := by
  obtain ⟨e1, e2, e3, e4⟩ := Hand.img_decoded_eval
  have hf := Hand.img_meta_foreign
  rw [List.all_eq_true] at hf
  refine ⟨Hand.img_wf, defaultCmp_lawful, ?_, ?_, Hand.world_clean, rfl, Hand.img_length, e1, e2, e3, e4,
    by decide +kernel⟩
  · apply filterCompat_of_absent
    intro e he
    have := hf e he
    simp only [Bool.and_eq_true, bne_iff_ne, ne_eq] at this
    exact this.1
  · apply filterCompat_of_absent
    intro e he
    have := hf e he
    simp only [Bool.and_eq_true, bne_iff_ne, ne_eq] at this
    exact this.2

/-- `C06_reader` on `Hand.img`, read with the crate's default policy (bloom; the image has no filter for
    it): open succeeds; the scan returns the four entries; the lookup of `[0x61, 0x62]` — the key EQUAL to
    its block's index key — returns its value, the stored empty value is found, a key between the two blocks
    and one above everything are absent; a seek to the index key stands on it; a seek just above it lands on
    the first entry of the other block (which lies EARLIER in the file). -/
theorem C06_instance :
    ∃ (w1 : World) (tb : Table) (it : TableIter),
      Table.new ⟨defaultCmp, Bloom.policy 10⟩ 0 301 Hand.world = (w1, .ok tb)
      ∧ TableIter.new tb w1 = (w1, .ok it)
      ∧ (∃ w2 it2, it.run (List.replicate 5 IterOp.next) w1
            = (w2, .ok (it2, [.entry (some ([0x61], [1])), .entry (some ([0x61, 0x62], [2])),
                .entry (some ([0x62], [])), .entry (some ([0x63, 0xff], [3, 4])), .entry none])))
      ∧ (∃ w2, tb.get [0x61, 0x62] w1 = (w2, .ok (some [2])))
      ∧ (∃ w2, tb.get [0x62] w1 = (w2, .ok (some [])))
      ∧ (∃ w2, tb.get [0x61, 0x63] w1 = (w2, .ok none))
      ∧ (∃ w2, tb.get [0x64] w1 = (w2, .ok none))
      ∧ (∃ w2 it2, it.run [.seek [0x61, 0x62], .current, .valid] w1
            = (w2, .ok (it2, [.unit, .entry (some ([0x61, 0x62], [2])), .flag true])))
      ∧ (∃ w2 it2, it.run [.seek [0x61, 0x62, 0], .current, .valid] w1
            = (w2, .ok (it2, [.unit, .entry (some ([0x62], [])), .flag true])))
      ∧ (∃ w2 it2, it.run [.seek [0x63, 0xff], .prev, .prev, .current] w1
            = (w2, .ok (it2, [.unit, .flag true, .flag true, .entry (some ([0x61, 0x62], [2]))]))) := by
  obtain ⟨hwf, hc, hfc, _, hcw, hempty, hlen, hent, _⟩ := C06_nonvacuous
  obtain ⟨w1, tb, it, hnew, hit, hscan, hget, hseek, hhist⟩ :=
    C06_reader defaultCmp hc (Bloom.policy 10) Hand.img _ hwf hfc Hand.world 0 hcw hempty
  rw [hlen] at hnew
  rw [hent] at hscan hget hseek hhist
  have l0 : Spec.lookup defaultCmp [([0x61], [1]), ([0x61, 0x62], [2]), ([0x62], []), ([0x63, 0xff], [3, 4])]
      [0x61, 0x62] = some [2] := by decide
  have l1 : Spec.lookup defaultCmp [([0x61], [1]), ([0x61, 0x62], [2]), ([0x62], []), ([0x63, 0xff], [3, 4])]
      [0x62] = some [] := by decide
  have l2 : Spec.lookup defaultCmp [([0x61], [1]), ([0x61, 0x62], [2]), ([0x62], []), ([0x63, 0xff], [3, 4])]
      [0x61, 0x63] = none := by decide
  have l3 : Spec.lookup defaultCmp [([0x61], [1]), ([0x61, 0x62], [2]), ([0x62], []), ([0x63, 0xff], [3, 4])]
      [0x64] = none := by decide
  obtain ⟨wp, itp, hrunp, _⟩ := NV.history_det hhist [.seek [0x63, 0xff], .prev, .prev, .current]
    ⟨rfl, rfl, rfl, rfl, trivial⟩
  exact ⟨w1, tb, it, hnew, hit, hscan, l0 ▸ hget [0x61, 0x62], l1 ▸ hget [0x62], l2 ▸ hget [0x61, 0x63],
    l3 ▸ hget [0x64], hseek [0x61, 0x62], hseek [0x61, 0x62, 0], ⟨wp, itp, hrunp⟩⟩

/-- independent cross-check: the model reader RUN by the kernel on the 301 bytes -/
theorem C06_instance_eval :
    NV.withOpened (Bloom.policy 10) Hand.world 301 (fun tb it w =>
      FT.runB it (List.replicate 5 .next) w
        [.entry (some ([0x61], [1])), .entry (some ([0x61, 0x62], [2])), .entry (some ([0x62], [])),
         .entry (some ([0x63, 0xff], [3, 4])), .entry none]
      && FT.getB tb [0x61, 0x62] w (.ok (some [2])) && FT.getB tb [0x62] w (.ok (some []))
      && FT.getB tb [0x61, 0x63] w (.ok none) && FT.getB tb [0x64] w (.ok none)
      && FT.runB it [.seek [0x61, 0x62], .current, .valid] w
        [.unit, .entry (some ([0x61, 0x62], [2])), .flag true]
      && FT.runB it [.seek [0x61, 0x62, 0], .current, .valid] w
        [.unit, .entry (some ([0x62], [])), .flag true]
      && FT.runB it [.seek [0x63, 0xff], .prev, .prev, .current] w
        [.unit, .flag true, .flag true, .entry (some ([0x61, 0x62], [2]))]) = true :=
  Hand.reader_eval

/-! ### C15: prefixes of the image -/

/-- `NoInnerMagic` holds of both witness images (evaluated: no prefix of length ≥ 48 ends with the magic
    number), and `C15_prefix_rejected_corruption` / `C15_prefix_rejected` at three prefix lengths of the
    232-byte image: 40 (shorter than a footer), 160 (cuts inside the index block, which occupies 148..184)
    and 231 (only the last byte of the magic number is missing) — for every reader configuration and
    cache; with a fault-free source the error is `Corruption`, with any read-fault schedule it is an error. -/
theorem C15_instance :
    NoInnerMagic NV.img ∧ NoInnerMagic FT.witnessImg
      ∧ (∀ (opt : ROpts) (c : LruCache Bytes),
          (Table.new opt 0 40 { files := [NV.img.take 40], cache := c }).2 = .err .corruption
          ∧ (Table.new opt 0 160 { files := [NV.img.take 160], cache := c }).2 = .err .corruption
          ∧ (Table.new opt 0 231 { files := [NV.img.take 231], cache := c }).2 = .err .corruption)
      ∧ (∀ (opt : ROpts) (c : LruCache Bytes) (faults : List Fault),
          ∃ code, (Table.new opt 0 160 { files := [NV.img.take 160], sched := faults, cache := c }).2
            = .err code) := by
  have hm : NoInnerMagic NV.img := NV.noInnerMagicB_sound NV.img_noInnerMagic
  refine ⟨hm, NV.noInnerMagicB_sound NV.witnessImg_noInnerMagic, ?_, ?_⟩
  · intro opt c
    exact ⟨C15_prefix_rejected_corruption opt NV.img 40 (by rw [NV.img_length]; decide) hm _ 0 rfl rfl,
      C15_prefix_rejected_corruption opt NV.img 160 (by rw [NV.img_length]; decide) hm _ 0 rfl rfl,
      C15_prefix_rejected_corruption opt NV.img 231 (by rw [NV.img_length]; decide) hm _ 0 rfl rfl⟩
  · intro opt c faults
    exact C15_prefix_rejected opt NV.img 160 (by rw [NV.img_length]; decide) hm _ 0 rfl

/-! ### C13: imperfect sinks -/

/-- `C13_sink_any_schedule` on the C14 / C07 witness configuration (`exampleOpts 0 noFilterPolicy`,
    `exampleEntries`) with the schedule `NV.schedOK` — partial acceptances of 5, 1, 2, 1, 3 bytes, an
    over-long acceptance, four `Interrupted` —: the build succeeds with size 182, the whole schedule was
    consumed, and the sink holds exactly `FT.witnessImg`, the bytes of the perfect sink.
    With a hard error at the third call (`NV.schedHard`) the build reports `Err(IOError)`
    (`C13_hard_error_not_ok`: it cannot report success), the sink having received 5 bytes; a ZERO-length
    acceptance (`NV.schedZero`) is not retried: `write_all` turns it into an error (`WriteZero`). -/
theorem C13_instance :
    (∃ t, TableBuilder.build (TableBuilder.exampleOpts 0 noFilterPolicy) { sched := NV.schedOK }
            TableBuilder.exampleEntries = (t, .ok 182)
        ∧ t.sink.received = FT.witnessImg ∧ t.sink.received.length = 182 ∧ t.sink.sched = []
        ∧ ∃ consumed, NV.schedOK = consumed ++ t.sink.sched ∧ SinkResp.error ∉ consumed)
      ∧ (∃ t, TableBuilder.build (TableBuilder.exampleOpts 0 noFilterPolicy) { sched := NV.schedHard }
            TableBuilder.exampleEntries = (t, .err .ioError)
          ∧ t.sink.received = FT.witnessImg.take 5
          ∧ ∀ n, (TableBuilder.build (TableBuilder.exampleOpts 0 noFilterPolicy) { sched := NV.schedHard }
            TableBuilder.exampleEntries).2 ≠ .ok n)
      ∧ (TableBuilder.build (TableBuilder.exampleOpts 0 noFilterPolicy) { sched := NV.schedZero }
            TableBuilder.exampleEntries).2 = .err .ioError := by
  obtain ⟨h1, h2, h3, h4, h5, h6, h7⟩ := NV.sink_eval
  refine ⟨?_, ?_, NV.errB_sound h7⟩
  · have hb := NV.okSizeB_sound h1
    obtain ⟨tp, hp, hrec, hlen, hcons⟩ :=
      C13_sink_any_schedule _ NV.schedOK _ _ 182 (by decide) hb
    have hp' := NV.okSizeB_sound h3
    have htp : tp.sink.received = FT.witnessImg := by
      show _ = (TableBuilder.build (TableBuilder.exampleOpts 0 noFilterPolicy) {}
        TableBuilder.exampleEntries).1.sink.received
      rw [hp]
    exact ⟨_, hb, hrec.trans htp, hlen.symm, h2, hcons⟩
  · have he := NV.errB_sound h4
    refine ⟨_, Prod.ext rfl he, h6, ?_⟩
    exact C13_hard_error_not_ok _ NV.schedHard _ _ _ rfl [.accept 5, .interrupted, .error]
      ((rfl : NV.schedHard = [.accept 5, .interrupted, .error] ++ [.accept 7]).trans
        (congrArg (fun l => [SinkResp.accept 5, .interrupted, .error] ++ l) h5.symm)) (by decide)

/-! ### C16, C17, C09, C18, C20 -/

/-- `C16_rejects` on the writer of `NV.opts`: after the single addition of key `[2]`, the SECOND call is
    refused when it offers the smaller key `[1]` or the equal key `[2]` — by a panic at that call
    (evaluated: at the site "add: keys must be added in increasing order") — while the greater key
    `[2, 0]` is accepted; the whole build of the out-of-order list panics at the same site. -/
theorem C16_instance :
    ∃ t, (TableBuilder.new NV.opts {}).addAll ([] ++ [([2], [20])]) = (t, .ok ())
      ∧ (∃ site, (t.add [1] [10]).2 = .panic site)
      ∧ (∃ site, (t.add [2] []).2 = .panic site)
      ∧ (t.add [1] [10]).2 = .panic "add: keys must be added in increasing order"
      ∧ (t.add [2, 0] []).2.isOk = true
      ∧ (TableBuilder.build NV.opts {} [([2], [20]), ([1], [10])]).2
          = .panic "add: keys must be added in increasing order" := by
  obtain ⟨h1, h2, _, h4, h5⟩ := NV.order_eval
  obtain ⟨t, ht⟩ := TableBuilder.exists_ok_unit_of_isOk _ h1
  have ht1 : ((TableBuilder.new NV.opts {}).addAll ([] ++ [([2], [20])])).1 = t := by rw [ht]
  rw [ht1] at h2 h4
  exact ⟨t, ht, C16_rejects NV.opts {} [] [2] [20] [1] [10] t ht (by decide),
    C16_rejects NV.opts {} [] [2] [20] [2] [] t ht (by decide), NV.panicB_sound h2, h4, NV.panicB_sound h5⟩

/-- `C17_sep` / `C17_succ` on byte strings containing 0xff.  `[1,ff,ff,4] < [1,ff,ff,9]`: the separator
    `[1,ff,ff,5]` bumps the first byte that can be bumped; `[1,ff,3] < [3]`: the separator `[2]` is
    SHORTER than both; `[1,ff,ff] < [2,0]`: nothing can be bumped (1+1 is not below 2, ff cannot be
    incremented), the separator `[1,ff,ff,0]` is one byte LONGER than `a` — the bound is attained;
    successors: `[ff,ff] ↦ [ff,ff,ff]`, `[ff,3,ff] ↦ [ff,4]`. -/
theorem C17_instance :
    DefaultCmp.findShortestSep [1, 0xff, 0xff, 4] [1, 0xff, 0xff, 9] = [1, 0xff, 0xff, 5]
      ∧ DefaultCmp.findShortestSep [1, 0xff, 3] [3] = [2]
      ∧ DefaultCmp.findShortestSep [1, 0xff, 0xff] [2, 0] = [1, 0xff, 0xff, 0]
      ∧ (LexLe [1, 0xff, 0xff, 4] [1, 0xff, 0xff, 5] ∧ LexLt [1, 0xff, 0xff, 5] [1, 0xff, 0xff, 9])
      ∧ (LexLe [1, 0xff, 3] [2] ∧ LexLt [2] [3])
      ∧ (LexLe [1, 0xff, 0xff] [1, 0xff, 0xff, 0] ∧ LexLt [1, 0xff, 0xff, 0] [2, 0]
          ∧ [1, 0xff, 0xff, (0 : UInt8)].length = [1, 0xff, (0xff : UInt8)].length + 1)
      ∧ DefaultCmp.findShortSucc [0xff, 0xff] = [0xff, 0xff, 0xff]
      ∧ DefaultCmp.findShortSucc [0xff, 3, 0xff] = [0xff, 4]
      ∧ LexLt [0xff, 0xff] [0xff, 0xff, 0xff] ∧ LexLt [0xff, 3, 0xff] [0xff, 4] := by
  have s1 : DefaultCmp.findShortestSep [1, 0xff, 0xff, 4] [1, 0xff, 0xff, 9] = [1, 0xff, 0xff, 5] := by decide
  have s2 : DefaultCmp.findShortestSep [1, 0xff, 3] [3] = [2] := by decide
  have s3 : DefaultCmp.findShortestSep [1, 0xff, 0xff] [2, 0] = [1, 0xff, 0xff, 0] := by decide
  have u1 : DefaultCmp.findShortSucc [0xff, 0xff] = [0xff, 0xff, 0xff] := by decide
  have u2 : DefaultCmp.findShortSucc [0xff, 3, 0xff] = [0xff, 4] := by decide
  have c1 := C17_sep [1, 0xff, 0xff, 4] [1, 0xff, 0xff, 9] ((model_order_is_lex _ _).mp (by decide))
  have c2 := C17_sep [1, 0xff, 3] [3] ((model_order_is_lex _ _).mp (by decide))
  have c3 := C17_sep [1, 0xff, 0xff] [2, 0] ((model_order_is_lex _ _).mp (by decide))
  have c4 := C17_succ_strict [0xff, 0xff]
  have c5 := C17_succ_strict [0xff, 3, 0xff]
  rw [s1] at c1
  rw [s2] at c2
  rw [s3] at c3
  rw [u1] at c4
  rw [u2] at c5
  exact ⟨s1, s2, s3, ⟨c1.1, c1.2.1⟩, ⟨c2.1, c2.2.1⟩, ⟨c3.1, c3.2.1, rfl⟩, u1, u2, c4, c5⟩

/-- `C09_bloom` on three keys at 10 bits per key, read with ANOTHER bits-per-key setting (16): every member
    passes (`FitsBits` discharged by evaluation); the filter itself evaluated: 8 bytes of bits and the probe
    count 6; cross-check by evaluation that all members pass and that the filter is not trivial: the
    non-members `[2]` … `[7]` are all rejected. -/
theorem C09_instance :
    Bloom.FitsBits 10 NV.bloomKeys
      ∧ (∀ key ∈ NV.bloomKeys,
          (Bloom.policy 16).keyMayMatch key ((Bloom.policy 10).createFilter NV.bloomKeys) = true)
      ∧ (Bloom.policy 10).createFilter NV.bloomKeys = [33, 70, 148, 35, 128, 82, 64, 8, 6]
      ∧ (Bloom.policy 16).keyMayMatch [0xff, 0, 7, 9, 9] [33, 70, 148, 35, 128, 82, 64, 8, 6] = true
      ∧ (∀ key ∈ [[2], [3], [4], [5], [6], [7]],
          (Bloom.policy 16).keyMayMatch key [33, 70, 148, 35, 128, 82, 64, 8, 6] = false) := by
  obtain ⟨e1, _, e3, _⟩ := NV.bloom_eval
  have hfit : Bloom.FitsBits 10 NV.bloomKeys := by unfold Bloom.FitsBits; decide
  have hall := fun key hk => C09_bloom 10 16 NV.bloomKeys key hfit hk
  refine ⟨hfit, hall, e1, ?_, ?_⟩
  · have := hall [0xff, 0, 7, 9, 9] (by decide)
    rw [show (Bloom.policy 10).createFilter NV.bloomKeys = _ from e1] at this
    exact this
  · intro key hk
    rw [List.all_eq_true] at e3
    have := e3 key hk
    rw [e1] at this
    have h' : Bloom.keyMayMatch key [33, 70, 148, 35, 128, 82, 64, 8, 6] = false := by simpa using this
    exact h'

/-- `C18_filter_size` / `C18_probe_count` / `C18_default_policy` on the same three keys: 3·10 = 30 < 64 bits,
    so 8 bytes + 1; the last byte is the probe count 6 = ⌊0.69·10⌋; 7 keys need 70 bits = 9 bytes + 1.
    And on the table `NV.img` (evaluated): the lookups of the absent keys `[2]`, `[3, 7]`, `[0]`, `[9]`
    cause NO `read_at` — the bloom filter is consulted before any block is fetched — while a stored key costs
    exactly one. -/
theorem C18_instance :
    (Bloom.createFilter 10 NV.bloomKeys).length = 9
      ∧ (Bloom.createFilter 10 NV.bloomKeys).getLast? = some 6
      ∧ Bloom.kOf 10 = 6 ∧ Consts.defaultBitsPerKey = 10
      ∧ (∀ keys : List Bytes, keys.length = 7 → (Bloom.createFilter 10 keys).length = 10)
      ∧ (∃ (w1 : World) (tb : Table),
          Table.new ⟨defaultCmp, Bloom.policy 10⟩ 0 232 NV.world = (w1, .ok tb)
          ∧ NV.getReads tb [3] w1 = 1 ∧ NV.getReads tb [2] w1 = 0 ∧ NV.getReads tb [3, 7] w1 = 0
          ∧ NV.getReads tb [0] w1 = 0 ∧ NV.getReads tb [9] w1 = 0) := by
  have hk : Bloom.kOf 10 = 6 := C18_default_policy.2
  refine ⟨by rw [C18_filter_size]; rfl, ?_, hk, C18_default_policy.1, ?_, ?_⟩
  · rw [(C18_probe_count 10 NV.bloomKeys).1, hk]; rfl
  · intro keys h
    rw [C18_filter_size, h]; rfl
  · obtain ⟨w1, tb, _, hnew, _, _, _, _, _, _, _, _, _, _, _, _, _, _, _, _, _, n1, n2, n3, n4, n5⟩ :=
      C01_C04_C19_instance_eval
    exact ⟨w1, tb, hnew, n1, n2, n3, n4, n5⟩

/-- `C20_display` on one error value: code `Corruption`, message "bad block" -/
theorem C20_instance :
    (Status.new .corruption "bad block").display = some "Corruption: bad block"
      ∧ ∃ d, (Status.new .corruption "bad block").display = some d
          ∧ (∃ a b, d = a ++ Code.corruption.name ++ b) ∧ (∃ a b, d = a ++ "bad block" ++ b) :=
  ⟨by decide, C20_display .corruption "bad block"⟩

/-! ### C10, C11: two handles on one cache of capacity 1 -/

namespace NV

/-- `C10_interleaving` for two handles `tb1`, `tb2` on one image `t` (entries `es`) sharing the cache of
    `w0`; iterator handle 0 belongs to `tb1`, every other handle to `tb2`; both iterators new -/
theorem interleave_two (p : FilterPolicy) (t : TableImg) (fv : Option Bytes) (tb1 tb2 : Table)
    (it1 it2 : TableIter) (w0 : World) (es : List Entry)
    (hok1 : (CS.Client.mk defaultCmp p t fv tb1).OK) (hok2 : (CS.Client.mk defaultCmp p t fv tb2).OK)
    (hg : (CS.Client.mk defaultCmp p t fv tb2).GetOK) (hne : tb1.cacheId ≠ tb2.cacheId)
    (hw1 : WorldOK w0 tb1 t) (hw2 : WorldOK w0 tb2 t) (hs1 : SimT t tb1 it1 none) (hs2 : SimT t tb2 it2 none)
    (hent : t.entries = es) (evs : List SEv) :
    ∃ (w' : World) (its' : Nat → TableIter) (outs : List CS.EvOut),
      CS.sysRun (fun i => if i = 0 then it1 else it2)
          (evs.map (evOf ⟨defaultCmp, p, t, fv, tb1⟩ ⟨defaultCmp, p, t, fv, tb2⟩)) w0 = (w', .ok (its', outs))
      ∧ (∀ i, ∃ q, CursorRun defaultCmp es none
            (CS.callsOf i (evs.map (evOf ⟨defaultCmp, p, t, fv, tb1⟩ ⟨defaultCmp, p, t, fv, tb2⟩))) q
            (CS.outsOf i outs))
      ∧ CS.getsOf outs = getsSpec es evs
      ∧ w'.cache.cap = w0.cache.cap ∧ w'.cache.nextId = w0.cache.nextId
      ∧ (1 ≤ w0.cache.cap → w0.cache.count ≤ w0.cache.cap → w'.cache.count ≤ w'.cache.cap) := by
  let c1 : CS.Client := ⟨defaultCmp, p, t, fv, tb1⟩
  let c2 : CS.Client := ⟨defaultCmp, p, t, fv, tb2⟩
  let cls : List CS.Client := [c1, c2]
  let owner : Nat → CS.Client := fun i => if i = 0 then c1 else c2
  have hok : ∀ c ∈ cls, c.OK := by
    intro c hcm
    simp only [cls, List.mem_cons, List.mem_nil_iff, or_false] at hcm
    rcases hcm with rfl | rfl
    · exact hok1
    · exact hok2
  have hids : CS.IdsDistinct cls := by
    intro a ha b hb' hab
    simp only [cls, List.mem_cons, List.mem_nil_iff, or_false] at ha hb'
    rcases ha with rfl | rfl <;> rcases hb' with rfl | rfl
    · exact ⟨rfl, rfl⟩
    · exact absurd hab hne
    · exact absurd hab.symm hne
    · exact ⟨rfl, rfl⟩
  have hown : ∀ i, owner i ∈ cls := by
    intro i
    by_cases hi : i = 0
    · simp [owner, hi, cls]
    · simp [owner, hi, cls]
  have hmem : ∀ c k, CS.Ev.get c k ∈ evs.map (evOf c1 c2) → c ∈ cls ∧ c.GetOK := by
    intro c k hm
    rw [List.mem_map] at hm
    obtain ⟨ev, _, hev⟩ := hm
    cases ev with
    | call i op => cases hev
    | get b k' =>
      cases b
      · cases hev
        exact ⟨List.mem_cons_self, ⟨hg.sound, hg.fwf⟩⟩
      · cases hev
        exact ⟨List.mem_cons_of_mem _ List.mem_cons_self, hg⟩
  have hw : ∀ c ∈ cls, WorldOK w0 c.tb c.t := by
    intro c hcm
    simp only [cls, List.mem_cons, List.mem_nil_iff, or_false] at hcm
    rcases hcm with rfl | rfl
    · exact hw1
    · exact hw2
  have hsim : ∀ i, SimT (owner i).t (owner i).tb ((fun i => if i = 0 then it1 else it2) i) none := by
    intro i
    by_cases hi : i = 0
    · simp only [owner, hi, if_true]; exact hs1
    · simp only [owner, hi, if_false]; exact hs2
  obtain ⟨w', its', pos', outs, hrun, hcr, hgets, _, _, hcap, hnid, hcount⟩ :=
    C10_interleaving cls hok hids owner hown (evs.map (evOf c1 c2)) hmem w0 hw _ (fun _ => none) hsim
  refine ⟨w', its', outs, hrun, ?_, ?_, hcap, hnid, hcount⟩
  · intro i
    have h := hcr i
    have e1 : (owner i).cmp = defaultCmp := by
      by_cases hi : i = 0 <;> simp [owner, hi, c1, c2]
    have e2 : (owner i).t = t := by
      by_cases hi : i = 0 <;> simp [owner, hi, c1, c2]
    rw [e1, e2, hent] at h
    exact ⟨_, h⟩
  · rw [hgets]
    exact specGets_evOf c1 c2 es rfl rfl hent hent evs

/-- with determinism: the outputs seen through a handle whose calls contain no blind `prev` -/
theorem outs_det {es : List Entry} {ops : List IterOp} {outs : List IterOut}
    (h : ∃ q, CursorRun defaultCmp es none ops q outs) (hn : NoBlindPrev defaultCmp es none ops) :
    outs = (detRun defaultCmp es none ops).2 := by
  obtain ⟨q, hcr⟩ := h
  exact congrArg Prod.snd (CS.cursorRun_det defaultCmp es ops none q outs hcr hn)

end NV

/-- `C10_interleaving` on the witness of C12 (`C12_fine_witness`: the three-entry table opened TWICE on one
    world whose cache has capacity 1) with a concrete interleaving of 9 operations: iterator handle 0
    (first table handle) scans; iterator handle 1 (second table handle) seeks to `[2]`, reads, steps back
    and reads the key; in between a lookup of `[3, 5]` through the second and of the absent `[9]` through the
    first table handle.  Nothing fails; each handle sees exactly the outputs of ITS OWN calls on the Spec
    cursor — the scan is not disturbed by the other handle's evictions —; the lookups return the Spec map's
    answers; the capacity stays 1 and the bound on the number of cached blocks is preserved. -/
theorem C10_instance :
    ∃ (t : TableImg) (fv : Option Bytes) (tb1 tb2 : Table) (it1 it2 : TableIter) (w0 : World),
      t.entries = TableBuilder.exampleEntries ∧ tb1.cacheId ≠ tb2.cacheId ∧ w0.cache.cap = 1
      ∧ ∃ (w' : World) (its' : Nat → TableIter) (outs : List CS.EvOut),
        CS.sysRun (fun i => if i = 0 then it1 else it2)
          [.call 0 .next, .call 1 (.seek [2]), .get ⟨defaultCmp, noFilterPolicy, t, fv, tb2⟩ [3, 5],
           .call 0 .next, .call 1 .current, .get ⟨defaultCmp, noFilterPolicy, t, fv, tb1⟩ [9],
           .call 0 .next, .call 1 .prev, .call 1 .currentKey] w0 = (w', .ok (its', outs))
        ∧ CS.outsOf 0 outs = [.entry (some ([1], [10])), .entry (some ([2], [20])), .entry (some ([3, 5], [30]))]
        ∧ CS.outsOf 1 outs = [.unit, .entry (some ([2], [20])), .flag true, .key (some [1])]
        ∧ CS.getsOf outs = [some [30], none]
        ∧ w'.cache.cap = 1 ∧ w'.cache.nextId = w0.cache.nextId
        ∧ (w0.cache.count ≤ 1 → w'.cache.count ≤ 1) := by
  obtain ⟨t, fv, tb1, tb2, it1, it2, w0, hok1, hok2, hg2, hne, hw1, hw2, hs1, hs2, hent, hcap⟩ :=
    C12_fine_witness
  obtain ⟨w', its', outs, hrun, hcr, hgets, hcap', hnid, hcount⟩ :=
    NV.interleave_two noFilterPolicy t fv tb1 tb2 it1 it2 w0 _ hok1 hok2 hg2 hne hw1 hw2 hs1 hs2 hent
      [.call 0 .next, .call 1 (.seek [2]), .get true [3, 5], .call 0 .next, .call 1 .current,
       .get false [9], .call 0 .next, .call 1 .prev, .call 1 .currentKey]
  refine ⟨t, fv, tb1, tb2, it1, it2, w0, hent, hne, hcap, w', its', outs, hrun,
    NV.outs_det (hcr 0) ⟨rfl, rfl, rfl, trivial⟩, NV.outs_det (hcr 1) ⟨rfl, rfl, rfl, rfl, trivial⟩,
    hgets, hcap'.trans hcap, hnid, ?_⟩
  intro h
  have := hcount (by rw [hcap]; decide) (by rw [hcap]; exact h)
  rwa [hcap', hcap] at this

/-- the same on the table in the default style (bloom filter, three data blocks), where the cache is known
    to be EMPTY at the start (`NV.shared_witness`: `NV.img` opened twice on a cache of capacity 1), with the
    11-operation interleaving `NV.interleaving`: per-handle outputs, lookups, and — unconditionally — at most
    ONE cached block at the end.  Second half: the same run EVALUATED by the kernel agrees, ends with exactly
    one cached block (block 0 under the second handle's id) and has read the file 5 times for 7 block
    accesses: the block events (cache id, block offset, hit) in order show five misses — the handles evict
    each other's blocks — and two hits on a block fetched just before through the SAME table handle. -/
theorem C10_instance_bloom :
    ∃ (t : TableImg) (fv : Option Bytes) (tb1 tb2 : Table) (it1 it2 : TableIter) (w1 w0 : World),
      NV.SharedOK t fv tb1 tb2 it1 it2 w1 w0
      ∧ ∃ (w' : World) (its' : Nat → TableIter) (outs : List CS.EvOut),
        CS.sysRun (fun i => if i = 0 then it1 else it2)
          (NV.interleaving.map (NV.evOf ⟨defaultCmp, Bloom.policy 10, t, fv, tb1⟩
            ⟨defaultCmp, Bloom.policy 10, t, fv, tb2⟩)) w0 = (w', .ok (its', outs))
        ∧ CS.outsOf 0 outs = [.entry (some ([], [7])), .entry (some ([1], [])), .entry (some ([1, 2], [12])),
            .entry (some ([3], [30, 31]))]
        ∧ CS.outsOf 1 outs = [.unit, .entry (some ([3], [30, 31])), .flag true, .key (some [1, 2])]
        ∧ CS.getsOf outs = [some [9], none, some []]
        ∧ w'.cache.cap = 1 ∧ w'.cache.count ≤ 1
        -- evaluated
        ∧ w'.cache.count = 1 ∧ w'.cache.entries.map (·.1) = [(2, 0)]
        ∧ w'.readLog.length - w0.readLog.length = 5
        ∧ (w'.events.take (w'.events.length - w0.events.length)).reverse =
            [⟨1, 0, false⟩, ⟨2, 0, false⟩, ⟨2, 31, false⟩, ⟨1, 31, false⟩, ⟨1, 31, true⟩, ⟨2, 0, false⟩,
             ⟨2, 0, true⟩] := by
  obtain ⟨t, fv, tb1, tb2, it1, it2, w1, w0, h⟩ := NV.shared_witness
  obtain ⟨w', its', outs, hrun, hcr, hgets, hcap', _, hcount⟩ :=
    NV.interleave_two (Bloom.policy 10) t fv tb1 tb2 it1 it2 w0 _ h.ok1 h.ok2 h.getOK h.ids h.wok1 h.wok2
      h.sim1 h.sim2 h.entries NV.interleaving
  obtain ⟨w'', its'', outs'', hrun', hev⟩ :=
    NV.withShared_of ⟨defaultCmp, Bloom.policy 10, t, fv, tb1⟩ ⟨defaultCmp, Bloom.policy 10, t, fv, tb2⟩ rfl rfl
      h.open1 h.open2 h.iter1 h.iter2 NV.interleaving_eval
  obtain ⟨rfl, hpair⟩ := NV.pair_ok_inj (hrun'.symm.trans hrun)
  have ho : outs'' = outs := congrArg Prod.snd hpair
  subst ho
  simp only [Bool.and_eq_true, beq_iff_eq] at hev
  obtain ⟨⟨⟨⟨⟨⟨_, _⟩, _⟩, e4⟩, e5⟩, e6⟩, e7⟩ := hev
  have hc : w''.cache.count ≤ w''.cache.cap :=
    hcount (by rw [h.cap]; decide) (by show w0.cache.entries.length ≤ _; rw [h.empty, h.cap]; decide)
  refine ⟨t, fv, tb1, tb2, it1, it2, w1, w0, h, w'', its', outs'', hrun,
    NV.outs_det (hcr 0) ⟨rfl, rfl, rfl, rfl, trivial⟩, NV.outs_det (hcr 1) ⟨rfl, rfl, rfl, rfl, trivial⟩,
    hgets, hcap'.trans h.cap, ?_, e4, e5, e6, e7⟩
  rwa [hcap', h.cap] at hc

/-- `HCache.C11_refines` on two 5-operation histories.  Capacity 1: `insert 1, insert 2` (evicts 1),
    `get 1` (gone), `insert 2` again (replaces the value), `remove 2` (returns the new value; the cache is
    empty again).  Capacity 2: `insert 1, insert 2, get 1` (1 becomes most recent), `insert 3` (evicts 2,
    the least recently used), `get 2` (gone).  The heap model never panics, returns the trace of the abstract
    LRU map, and ends in a state representing the abstract one. -/
theorem C11_instance :
    (∃ c, HCache.runM 1 [.insert 1 10, .insert 2 20, .get 1, .insert 2 21, .remove 2]
            = .ok (c, [none, none, none, none, some 21])
        ∧ HCache.Rep c { cap := 1, items := [] } ∧ c.count ≤ 1)
      ∧ (∃ c, HCache.runM 2 [.insert 1 10, .insert 2 20, .get 1, .insert 3 30, .get 2]
            = .ok (c, [none, none, some 10, none, none])
        ∧ HCache.Rep c { cap := 2, items := [(3, 30), (1, 10)] } ∧ c.count ≤ 2) := by
  constructor
  · obtain ⟨c, outs, hrun, houts, hrep, hcount⟩ :=
      HCache.C11_refines 1 (by decide) [.insert 1 10, .insert 2 20, .get 1, .insert 2 21, .remove 2]
    have e : Spec.Lru.run { cap := 1 } [.insert 1 10, .insert 2 20, .get 1, .insert 2 21, .remove 2]
        = ({ cap := 1, items := [] }, [none, none, none, none, some 21]) := by decide
    rw [e] at houts hrep
    subst houts
    exact ⟨c, hrun, hrep, hcount⟩
  · obtain ⟨c, outs, hrun, houts, hrep, hcount⟩ :=
      HCache.C11_refines 2 (by decide) [.insert 1 10, .insert 2 20, .get 1, .insert 3 30, .get 2]
    have e : Spec.Lru.run { cap := 2 } [.insert 1 10, .insert 2 20, .get 1, .insert 3 30, .get 2]
        = ({ cap := 2, items := [(3, 30), (1, 10)] }, [none, none, some 10, none, none]) := by decide
    rw [e] at houts hrep
    subst houts
    exact ⟨c, hrun, hrep, hcount⟩

/-- independent cross-check: the heap model of cache.rs RUN on the two histories -/
theorem C11_instance_eval :
    (match HCache.runM 1 [.insert 1 10, .insert 2 20, .get 1, .insert 2 21, .remove 2] with
      | .ok (c, outs) => outs == [none, none, none, none, some 21] && c.count == 0
      | _ => false) = true
    ∧ (match HCache.runM 2 [.insert 1 10, .insert 2 20, .get 1, .insert 3 30, .get 2] with
      | .ok (c, outs) => outs == [none, none, some 10, none, none] && c.count == 2
      | _ => false) = true := by
  decide +kernel

end Sst

#print axioms Sst.C01_instance
#print axioms Sst.C01_instance_crate_default
#print axioms Sst.C02_instance
#print axioms Sst.C03_instance
#print axioms Sst.C04_instance
#print axioms Sst.C19_instance
#print axioms Sst.C01_C04_C19_instance_eval
#print axioms Sst.C05_instance
#print axioms Sst.C05_instance_eval
#print axioms Sst.C05_judge_discriminates
#print axioms Sst.C06_nonvacuous
#print axioms Sst.C06_instance
#print axioms Sst.C06_instance_eval
#print axioms Sst.C15_instance
#print axioms Sst.C13_instance
#print axioms Sst.C16_instance
#print axioms Sst.C17_instance
#print axioms Sst.C09_instance
#print axioms Sst.C18_instance
#print axioms Sst.C20_instance
#print axioms Sst.C10_instance
#print axioms Sst.C10_instance_bloom
#print axioms Sst.C11_instance
#print axioms Sst.C11_instance_eval
