import SstModel.Generated.Funcs
import SstModel.Model.Cmp
import SstModel.Lemmas.Order
import SstModel.Lemmas.Sep
/-
  Tie theorem for `cmp.rs::DefaultCmp::find_shortest_sep`:
  the mechanically translated `Gen.find_shortest_sep` (Generated/Funcs.lean) computes exactly the
  hand-written model `DefaultCmp.findShortestSep` (Model/Cmp.lean), for every input on which the Rust
  `assert!(self.cmp(&sep, b) == Ordering::Less)` holds (in particular for every `a ≤ b`), and panics on
  every other input.

  Structure of the proof: two generic loop rules (`loop_prefix`, `loop_scan`) that characterise a
  `Rt.loopFuel` run by the *behaviour* of its body (no panic-site string and no variable name of the
  generated code occurs in them); the main theorem unfolds the generated definition once, and discharges
  the body-behaviour side conditions by computation.
-/
namespace Sst
namespace FuncsTie.Sep
open DefaultCmp

/-! ### small list / byte facts -/

private theorem cpl_nil_left (b : Bytes) : commonPrefixLen [] b = 0 := by
  unfold commonPrefixLen; rfl

private theorem cpl_nil_right (a : Bytes) : commonPrefixLen a [] = 0 := by
  cases a <;> (unfold commonPrefixLen; rfl)

private theorem sepScan_nil_left (b : Bytes) : sepScan [] b = none := by
  unfold sepScan; rfl

private theorem sepScan_nil_right (a : Bytes) : sepScan a [] = none := by
  cases a <;> (unfold sepScan; rfl)

private theorem drop_of_getElem? {a : Bytes} {d : Nat} {x : UInt8} (h : a[d]? = some x) :
    a.drop d = x :: a.drop (d + 1) := by
  obtain ⟨hd, hx⟩ := List.getElem?_eq_some_iff.mp h
  rw [List.drop_eq_getElem_cons hd, hx]

private theorem lt_length_of_getElem? {a : Bytes} {d : Nat} {x : UInt8} (h : a[d]? = some x) :
    d < a.length := (List.getElem?_eq_some_iff.mp h).1

private theorem take_succ_of_getElem? {a : Bytes} {d : Nat} {x : UInt8} (h : a[d]? = some x) :
    a.take (d + 1) = a.take d ++ [x] := by
  rw [List.take_add_one, h]; rfl

private theorem take_succ_set {a : Bytes} {d : Nat} {x v : UInt8} (h : a[d]? = some x) :
    (a.take (d + 1)).set d v = a.take d ++ [v] := by
  have hd := lt_length_of_getElem? h
  rw [take_succ_of_getElem? h]
  have hl : (a.take d).length = d := by rw [List.length_take]; omega
  rw [List.set_append_right _ _ (by omega)]
  simp [hl]

private theorem take_succ_getElem? {a : Bytes} {d : Nat} {x : UInt8} (h : a[d]? = some x) :
    (a.take (d + 1))[d]? = some x := by
  rw [List.getElem?_take_of_lt (by omega)]; exact h

private theorem u8_lt_ff_iff (x : UInt8) : x.toNat < 255 ↔ x < 0xff :=
  (UInt8.lt_iff_toNat_lt (a := x) (b := 0xff)).symm

private theorem u8_ofNat_succ (x : UInt8) : UInt8.ofNat (x.toNat + 1) = x + 1 := by
  apply UInt8.toNat_inj.mp
  rw [UInt8.toNat_ofNat', UInt8.toNat_add]
  rfl

/-! ### generic loop rules -/

/-- The first loop: any body that steps over equal bytes and stops at the first difference or at
    `mn = min |a| |b|` computes the common-prefix length. -/
private theorem loop_prefix (a b : Bytes) (mn : Nat) (hmn : mn = min a.length b.length)
    (body : Nat → Res (Rt.LStep Nat Bytes))
    (hc : ∀ d x, a[d]? = some x → b[d]? = some x → body d = .ok (.cont (d + 1)))
    (hb1 : ∀ d x y, a[d]? = some x → b[d]? = some y → x ≠ y → body d = .ok (.brk d))
    (hb2 : ∀ d, mn ≤ d → body d = .ok (.brk d)) :
    ∀ fuel d, d ≤ mn → a.length - d < fuel →
      Rt.loopFuel body fuel d = .ok (.done (d + commonPrefixLen (a.drop d) (b.drop d))) := by
  intro fuel
  induction fuel with
  | zero => intro d _ h; omega
  | succ n ih =>
    intro d hd hfuel
    by_cases hlt : d < mn
    · have hda : d < a.length := by omega
      have hdb : d < b.length := by omega
      have ha : a[d]? = some a[d] := List.getElem?_eq_getElem hda
      have hb : b[d]? = some b[d] := List.getElem?_eq_getElem hdb
      rw [drop_of_getElem? ha, drop_of_getElem? hb]
      by_cases hxy : a[d] = b[d]
      · have hbody := hc d a[d] ha (by rw [hb, hxy])
        simp only [Rt.loopFuel, hbody]
        rw [ih (d + 1) (by omega) (by omega)]
        simp only [commonPrefixLen, hxy, if_true]
        congr 2; omega
      · have hbody := hb1 d a[d] b[d] ha hb hxy
        simp only [Rt.loopFuel, hbody, commonPrefixLen, hxy, if_false, Nat.add_zero]
    · have hbody := hb2 d (by omega)
      simp only [Rt.loopFuel, hbody]
      have : a.drop d = [] ∨ b.drop d = [] := by
        rcases Nat.le_total a.length b.length with h | h
        · left; apply List.drop_eq_nil_of_le; omega
        · right; apply List.drop_eq_nil_of_le; omega
      rcases this with h | h
      · rw [h, cpl_nil_left]; rfl
      · rw [h, cpl_nil_right]; rfl

/-- What the second loop yields, in terms of `sepScan` on the suffixes. -/
private def ScanOutcome (a b : Bytes) (d : Nat) (r : Res (Rt.Flow Nat Bytes)) : Prop :=
  match sepScan (a.drop d) (b.drop d) with
  | none => ∃ s, r = .ok (.done s)
  | some t =>
    (cmpBytes (a.take d ++ t) b = .lt → r = .ok (.ret (a.take d ++ t))) ∧
    (cmpBytes (a.take d ++ t) b ≠ .lt → r.isPanic = true)

/-- The second loop: any body that at a position with `a[d] < 0xff ∧ a[d]+1 < b[d]` returns
    `a[..d] ++ [a[d]+1]` if that is below `b` and panics otherwise, steps on at every other position
    below `mn`, and stops at `mn`, computes `sepScan`. -/
private theorem loop_scan (a b : Bytes) (mn : Nat) (hmn : mn = min a.length b.length)
    (body : Nat → Res (Rt.LStep Nat Bytes))
    (hr : ∀ d x y, a[d]? = some x → b[d]? = some y → (x < 0xff ∧ x + 1 < y) →
      (cmpBytes (a.take d ++ [x + 1]) b = .lt → body d = .ok (.ret (a.take d ++ [x + 1]))) ∧
      (cmpBytes (a.take d ++ [x + 1]) b ≠ .lt → (body d).isPanic = true))
    (hc : ∀ d x y, a[d]? = some x → b[d]? = some y → ¬ (x < 0xff ∧ x + 1 < y) →
      body d = .ok (.cont (d + 1)))
    (hb : ∀ d, mn ≤ d → body d = .ok (.brk d)) :
    ∀ fuel d, a.length - d < fuel → ScanOutcome a b d (Rt.loopFuel body fuel d) := by
  intro fuel
  induction fuel with
  | zero => intro d h; omega
  | succ n ih =>
    intro d hfuel
    unfold ScanOutcome
    by_cases hlt : d < mn
    · have hda : d < a.length := by omega
      have hdb : d < b.length := by omega
      have ha : a[d]? = some a[d] := List.getElem?_eq_getElem hda
      have hb' : b[d]? = some b[d] := List.getElem?_eq_getElem hdb
      rw [drop_of_getElem? ha, drop_of_getElem? hb']
      by_cases hcond : a[d] < 0xff ∧ a[d] + 1 < b[d]
      · have hbody := hr d a[d] b[d] ha hb' hcond
        simp only [sepScan, hcond, and_self, if_true]
        refine ⟨fun h => ?_, fun h => ?_⟩
        · simp only [Rt.loopFuel, hbody.1 h]
        · have hp := hbody.2 h
          revert hp
          simp only [Rt.loopFuel]
          cases body d <;> simp [Res.isPanic]
      · have hbody := hc d a[d] b[d] ha hb' hcond
        simp only [sepScan, hcond, if_false, Rt.loopFuel, hbody]
        have hrec := ih (d + 1) (by omega)
        unfold ScanOutcome at hrec
        cases hs : sepScan (a.drop (d + 1)) (b.drop (d + 1)) with
        | none => rw [hs] at hrec; simpa using hrec
        | some t =>
          rw [hs] at hrec
          simp only [Option.map_some] at hrec ⊢
          have : a.take d ++ a[d] :: t = a.take (d + 1) ++ t := by
            rw [take_succ_of_getElem? ha, List.append_assoc]; rfl
          rw [this]; exact hrec
    · have hbody := hb d (by omega)
      have : a.drop d = [] ∨ b.drop d = [] := by
        rcases Nat.le_total a.length b.length with h | h
        · left; apply List.drop_eq_nil_of_le; omega
        · right; apply List.drop_eq_nil_of_le; omega
      have hs : sepScan (a.drop d) (b.drop d) = none := by
        rcases this with h | h
        · rw [h, sepScan_nil_left]
        · rw [h, sepScan_nil_right]
      rw [hs]
      exact ⟨d, by simp only [Rt.loopFuel, hbody]⟩

/-! ### the generated function -/

/-- Exact description of the generated function: it returns the model separator, except that it panics
    when the scan loop finds a candidate separator that is not below `b` (the Rust `assert!`). -/
private theorem gen_core (a b : Bytes) (fuel : Nat) (hf : a.length < fuel) :
    Gen.find_shortest_sep fuel a b = .ok (findShortestSep a b) ∨
    (a ≠ b ∧ cmpBytes (findShortestSep a b) b ≠ .lt ∧
      (Gen.find_shortest_sep fuel a b).isPanic = true) := by
  unfold Gen.find_shortest_sep findShortestSep
  by_cases hab : a = b
  · left; simp [hab]
  have hab' : (a == b) = false := by simpa using hab
  simp only [hab', hab, if_false, Bool.false_eq_true]
  have hmn : (if decide (a.length < b.length) = true then a.length else b.length)
      = min a.length b.length := by
    by_cases h : a.length < b.length <;> simp [h] <;> omega
  simp only [hmn]
  -- first loop
  rw [loop_prefix a b (min a.length b.length) rfl _ ?hc ?hb1 ?hb2 fuel 0 (Nat.zero_le _) (by omega)]
  case hc =>
    intro d x h1 h2
    have := lt_length_of_getElem? h1
    have := lt_length_of_getElem? h2
    have hd : d < min a.length b.length := by omega
    simp [Rt.idx, h1, h2, hd]
  case hb1 =>
    intro d x y h1 h2 hxy
    have := lt_length_of_getElem? h1
    have := lt_length_of_getElem? h2
    have hd : d < min a.length b.length := by omega
    have hne : ¬ x.toNat = y.toNat := fun e => hxy (UInt8.toNat_inj.mp e)
    simp [Rt.idx, h1, h2, hd, hne]
  case hb2 =>
    intro d hd
    have hd' : ¬ d < min a.length b.length := by omega
    simp [hd']
  simp only [Res.bind_ok, Nat.zero_add, List.drop_zero]
  by_cases hdm : commonPrefixLen a b = min a.length b.length
  · left; simp [hdm]
  have hdm' : (commonPrefixLen a b == min a.length b.length) = false := by simpa using hdm
  simp only [hdm', hdm, if_false, Bool.false_eq_true]
  -- second loop
  generalize hL : Rt.loopFuel _ fuel (commonPrefixLen a b) = r
  have hscan : ScanOutcome a b (commonPrefixLen a b) r := by
    rw [← hL]
    refine loop_scan a b (min a.length b.length) rfl _ ?hr ?hc ?hb fuel _ (by omega)
    case hr =>
      intro d x y h1 h2 hcond
      have := lt_length_of_getElem? h1
      have := lt_length_of_getElem? h2
      have hd : d < min a.length b.length := by omega
      have hx : x.toNat < 255 := (u8_lt_ff_iff x).mpr hcond.1
      have hxy : x.toNat + 1 < y.toNat := by
        have := UInt8.lt_iff_toNat_lt.mp hcond.2
        rwa [u8_succ_toNat hcond.1] at this
      have hsl : slice? a 0 (d + 1) = some (a.take (d + 1)) := by
        unfold slice?
        rw [if_pos ⟨Nat.zero_le _, by omega⟩]; simp
      have hadd : x.toNat + 1 < 256 := by omega
      have e1 : ∀ s, Rt.idx a d s = .ok x.toNat := fun s => by simp only [Rt.idx, h1]
      have e2 : ∀ s, Rt.idx b d s = .ok y.toNat := fun s => by simp only [Rt.idx, h2]
      have e3 : ∀ s, Rt.addW 256 x.toNat 1 s = .ok (x.toNat + 1) := fun s => by
        simp only [Rt.addW, hadd, if_true]
      have e4 : ∀ s, Rt.sliceChk a 0 (d + 1) s = .ok (a.take (d + 1)) := fun s => by
        simp only [Rt.sliceChk, hsl]
      have e5 : ∀ s, Rt.idx (a.take (d + 1)) d s = .ok x.toNat := fun s => by
        simp only [Rt.idx, take_succ_getElem? h1]
      have e6 : ∀ s, Rt.setIdx (a.take (d + 1)) d (x.toNat + 1) s = .ok (a.take d ++ [x + 1]) :=
        fun s => by
          have hlen : d < (a.take (d + 1)).length := by rw [List.length_take]; omega
          simp only [Rt.setIdx, hlen, if_true, u8_ofNat_succ, take_succ_set h1]
      constructor
      · intro hlt
        have e7 : ∀ s, Rt.assertR (cmpBytes (a.take d ++ [x + 1]) b == Ordering.lt) s = .ok () :=
          fun s => by rw [hlt]; rfl
        simp only [e1, e2, e3, e4, e5, e6, e7, Res.bind_ok, Res.pure_eq, hd, hx, hxy, decide_true,
          if_true]
      · intro hlt
        have e7 : ∀ s, Rt.assertR (cmpBytes (a.take d ++ [x + 1]) b == Ordering.lt) s = .panic s :=
          fun s => by
            have : (cmpBytes (a.take d ++ [x + 1]) b == Ordering.lt) = false := by
              cases h : cmpBytes (a.take d ++ [x + 1]) b <;> first | rfl | exact absurd h hlt
            rw [this]; rfl
        simp only [e1, e2, e3, e4, e5, e6, e7, Res.bind_ok, Res.bind_panic, Res.pure_eq, hd, hx, hxy,
          decide_true, if_true, Res.isPanic]
    case hc =>
      intro d x y h1 h2 hcond
      have := lt_length_of_getElem? h1
      have := lt_length_of_getElem? h2
      have hd : d < min a.length b.length := by omega
      by_cases hx : x.toNat < 255
      · have hx' := (u8_lt_ff_iff x).mp hx
        have hxy : ¬ x.toNat + 1 < y.toNat := by
          intro h
          apply hcond
          refine ⟨hx', UInt8.lt_iff_toNat_lt.mpr ?_⟩
          rwa [u8_succ_toNat hx']
        have hadd : x.toNat + 1 < 256 := by omega
        simp [Rt.idx, Rt.addW, h1, h2, hd, hx, hxy, hadd]
      · simp [Rt.idx, h1, hd, hx]
    case hb =>
      intro d hd
      have hd' : ¬ d < min a.length b.length := by omega
      simp [hd']
  clear hL
  unfold ScanOutcome at hscan
  cases hs : sepScan (a.drop (commonPrefixLen a b)) (b.drop (commonPrefixLen a b)) with
  | none =>
    rw [hs] at hscan
    obtain ⟨s, rfl⟩ := hscan
    left
    simp [Rt.byteLit]
  | some t =>
    rw [hs] at hscan
    simp only
    by_cases hlt : cmpBytes (a.take (commonPrefixLen a b) ++ t) b = .lt
    · left
      rw [hscan.1 hlt]; rfl
    · right
      refine ⟨hab, hlt, ?_⟩
      have hp := hscan.2 hlt
      revert hp
      cases r <;> simp [Res.isPanic]

/-- For `a < b` the model separator is below `b` (so the Rust `assert!` holds). -/
private theorem sep_lt_of_le (a b : Bytes) (hne : a ≠ b) (hab : cmpBytes a b ≠ .gt) :
    cmpBytes (findShortestSep a b) b = .lt := by
  have hlt : blt a b := by
    rcases ble_iff.mp (show ble a b from hab) with h | h
    · exact h
    · exact absurd h hne
  exact (sep_spec a b hlt).2.1

end FuncsTie.Sep

open DefaultCmp FuncsTie.Sep

/-- **Tie theorem.** For `a ≤ b` the translated Rust function returns the model separator. -/
theorem Gen_find_shortest_sep_tie (a b : Bytes) (fuel : Nat) (hf : a.length < fuel)
    (hab : cmpBytes a b ≠ .gt) :
    Gen.find_shortest_sep fuel a b = .ok (DefaultCmp.findShortestSep a b) := by
  rcases gen_core a b fuel hf with h | ⟨hne, hnlt, _⟩
  · exact h
  · exact absurd (sep_lt_of_le a b hne hab) hnlt

/-- The hypothesis `a ≤ b` can be weakened to "the model separator is below `b`" (which is what the
    Rust `assert!` checks). -/
theorem Gen_find_shortest_sep_tie_of_sep_lt (a b : Bytes) (fuel : Nat) (hf : a.length < fuel)
    (hsep : cmpBytes (DefaultCmp.findShortestSep a b) b = .lt) :
    Gen.find_shortest_sep fuel a b = .ok (DefaultCmp.findShortestSep a b) := by
  rcases gen_core a b fuel hf with h | ⟨_, hnlt, _⟩
  · exact h
  · exact absurd hsep hnlt

/-- **Complement.** On every input the translated function either returns the model separator or
    panics (it never diverges with fuel `> |a|`, never returns anything else). -/
theorem Gen_find_shortest_sep_total (a b : Bytes) (fuel : Nat) (hf : a.length < fuel) :
    Gen.find_shortest_sep fuel a b = .ok (DefaultCmp.findShortestSep a b) ∨
      (Gen.find_shortest_sep fuel a b).isPanic = true := by
  rcases gen_core a b fuel hf with h | ⟨_, _, hp⟩
  · exact .inl h
  · exact .inr hp

/-- A panic happens only for `a > b`, and only when the model separator is not below `b`. -/
theorem Gen_find_shortest_sep_panic_only (a b : Bytes) (fuel : Nat) (hf : a.length < fuel)
    (hp : Gen.find_shortest_sep fuel a b ≠ .ok (DefaultCmp.findShortestSep a b)) :
    cmpBytes a b = .gt ∧ cmpBytes (DefaultCmp.findShortestSep a b) b ≠ .lt ∧
      (Gen.find_shortest_sep fuel a b).isPanic = true := by
  rcases gen_core a b fuel hf with h | ⟨hne, hnlt, hpan⟩
  · exact absurd h hp
  · refine ⟨?_, hnlt, hpan⟩
    apply Classical.byContradiction
    intro hgt
    exact hnlt (sep_lt_of_le a b hne hgt)

/-- The hypothesis of the tie theorem cannot be dropped: for `a = [7,1] > b = [6,9]` the Rust assertion
    fails (generated code panics) while the total model function returns `[7,2]`. -/
theorem Gen_find_shortest_sep_differs :
    (Gen.find_shortest_sep 3 [7, 1] [6, 9]).isPanic = true ∧
      DefaultCmp.findShortestSep [7, 1] [6, 9] = [7, 2] := by
  constructor <;> decide

end Sst

#print axioms Sst.Gen_find_shortest_sep_tie
#print axioms Sst.Gen_find_shortest_sep_tie_of_sep_lt
#print axioms Sst.Gen_find_shortest_sep_total
#print axioms Sst.Gen_find_shortest_sep_panic_only
#print axioms Sst.Gen_find_shortest_sep_differs
