import SstModel.Generated.Funcs
import SstModel.Model.Block
import SstModel.Props.FuncsTie.BlockIterBasic
import SstModel.Lemmas.Codec
/-
  Function-level tie for `Block::is_well_formed` (block.rs): the regenerated translation
  `Gen.block_is_well_formed` never panics and returns exactly `Block.isWellFormed` on every byte string.
-/
set_option linter.unusedSimpArgs false
set_option linter.unusedVariables false
namespace Sst
open FuncsTie.BlockIterBasic

namespace FuncsTie.WellFormed

theorem loopFuel_succ {σ ρ : Type} (body : σ → Res (Rt.LStep σ ρ)) (n : Nat) (s : σ) :
    Rt.loopFuel body (n + 1) s =
      match body s with
      | .ok (.cont s') => Rt.loopFuel body n s'
      | .ok (.brk s') => .ok (.done s')
      | .ok (.ret r) => .ok (.ret r)
      | .err c => .err c
      | .panic m => .panic m
      | .diverge => .diverge := rfl

theorem idxN_ok {x : List Nat} {i : Nat} {s : String} (h : i < x.length) :
    Rt.idxN x i s = .ok x[i] := by
  unfold Rt.idxN; rw [List.getElem?_eq_getElem h]

/-- a parsed header is at least 3 bytes long and lies inside the slice -/
theorem parseHeader_len (bs : Bytes) (s ns vs hl : Nat)
    (h : Block.parseHeader bs = some (s, ns, vs, hl)) : 3 ≤ hl ∧ hl ≤ bs.length := by
  unfold Block.parseHeader at h
  split at h
  · simp at h
  · rename_i s' l1 h1
    split at h
    · simp at h
    · rename_i ns' l2 h2
      split at h
      · simp at h
      · rename_i vs' l3 h3
        simp only [Option.some.injEq, Prod.mk.injEq] at h
        obtain ⟨_, _, _, rfl⟩ := h
        have g1 := decodeVarint_some_len _ _ _ h1
        have g2 := decodeVarint_some_len _ _ _ h2
        have g3 := decodeVarint_some_len _ _ _ h3
        rw [List.length_drop] at g2 g3
        omega

/-! ### the inner loop: three header varints -/

/-- what the inner loop hands to the code behind it -/
def headerFlow (entry : Bytes) : Res (Rt.Flow (Nat × Nat × List Nat) Bool) :=
  match Block.parseHeader entry with
  | none => .ok (.ret false)
  | some (s, ns, vs, hl) => .ok (.done (3, hl, [s, ns, vs]))

theorem set3 (ls : List Nat) (h : ls.length = 3) (a b c : Nat) :
    ((ls.set 0 a).set (0 + 1) b).set (0 + 1 + 1) c = [a, b, c] := by
  match ls, h with
  | [_, _, _], _ => rfl

theorem header_loop (entry : Bytes)
    (body : Nat × Nat × List Nat → Res (Rt.LStep (Nat × Nat × List Nat) Bool))
    (hstep : ∀ j hl ls, j < ls.length → hl ≤ entry.length →
      body (j, hl, ls) = match decodeVarint (entry.drop hl) with
        | some (n, used) => .ok (.cont (j + 1, hl + used, ls.set j n))
        | none => .ok (.ret false))
    (hbrk : ∀ j hl ls, ¬ j < ls.length → body (j, hl, ls) = .ok (.brk (j, hl, ls)))
    (fuel : Nat) (hf : 4 ≤ fuel) (ls : List Nat) (hls : ls.length = 3) :
    Rt.loopFuel body fuel (0, 0, ls) = headerFlow entry := by
  obtain ⟨n, rfl⟩ : ∃ n, fuel = n + 1 + 1 + 1 + 1 := ⟨fuel - 4, by omega⟩
  unfold headerFlow Block.parseHeader
  rw [loopFuel_succ, hstep 0 0 ls (by omega) (Nat.zero_le _), List.drop_zero]
  cases h1 : decodeVarint entry with
  | none => rfl
  | some p1 =>
    obtain ⟨s, l1⟩ := p1
    have g1 := decodeVarint_some_len _ _ _ h1
    simp only [Nat.zero_add]
    rw [loopFuel_succ, hstep (0 + 1) l1 _ (by rw [List.length_set]; omega) (by omega)]
    cases h2 : decodeVarint (entry.drop l1) with
    | none => rfl
    | some p2 =>
      obtain ⟨ns, l2⟩ := p2
      have g2 := decodeVarint_some_len _ _ _ h2
      rw [List.length_drop] at g2
      simp only []
      rw [loopFuel_succ, hstep (0 + 1 + 1) (l1 + l2) _
        (by rw [List.length_set, List.length_set]; omega) (by omega)]
      cases h3 : decodeVarint (entry.drop (l1 + l2)) with
      | none => rfl
      | some p3 =>
        obtain ⟨vs, l3⟩ := p3
        simp only []
        rw [loopFuel_succ, hbrk _ _ _ (by
          rw [List.length_set, List.length_set, List.length_set]; omega)]
        simp only [set3 ls hls]

/-! ### the outer loop: the entry walk -/

/-- one iteration of the entry walk (for `offset < restarts_off`) -/
def stepSpec (contents : Bytes) (roff n : Nat) (nr kl off : Nat) :
    Res (Rt.LStep (Nat × Nat × Nat) Bool) :=
  match Block.parseHeader ((contents.drop off).take (roff - off)) with
  | none => .ok (.ret false)
  | some (s, ns, vs, hl) =>
    if s > kl ∨ ns > ((contents.drop off).take (roff - off)).length - hl
        ∨ vs > ((contents.drop off).take (roff - off)).length - hl - ns then .ok (.ret false)
    else if nr < n ∧ fixed32At contents (roff + 4 * nr) = some off then
      if s ≠ 0 then .ok (.ret false) else .ok (.cont (nr + 1, s + ns, off + (hl + ns + vs)))
    else .ok (.cont (nr, s + ns, off + (hl + ns + vs)))

/-- the verdict behind the loop -/
def flowVal (n : Nat) : Rt.Flow (Nat × Nat × Nat) Bool → Bool
  | .ret r => r
  | .done (nr, _, _) => nr == n

theorem walk_loop (contents : Bytes) (roff n : Nat) (hroff : roff ≤ contents.length)
    (body : Nat × Nat × Nat → Res (Rt.LStep (Nat × Nat × Nat) Bool))
    (hstep : ∀ nr kl off, off < roff → body (nr, kl, off) = stepSpec contents roff n nr kl off)
    (hbrk : ∀ nr kl off, ¬ off < roff → body (nr, kl, off) = .ok (.brk (nr, kl, off))) :
    ∀ (fuel wfuel off kl nr : Nat), off ≤ roff → roff - off < fuel → roff - off < wfuel →
      ∃ fl, Rt.loopFuel body fuel (nr, kl, off) = .ok fl ∧
        flowVal n fl = Block.wfWalk contents roff n wfuel off kl nr := by
  intro fuel
  induction fuel with
  | zero => intro wfuel off kl nr _ h; omega
  | succ f ih =>
    intro wfuel off kl nr hle hf hw
    obtain ⟨w, rfl⟩ : ∃ w, wfuel = w + 1 := ⟨wfuel - 1, by omega⟩
    rw [loopFuel_succ]
    unfold Block.wfWalk
    by_cases hlt : off < roff
    · rw [hstep nr kl off hlt, if_pos hlt]
      unfold stepSpec
      simp only []
      cases hp : Block.parseHeader ((contents.drop off).take (roff - off)) with
      | none => exact ⟨_, rfl, rfl⟩
      | some p =>
        obtain ⟨s, ns, vs, hl⟩ := p
        have hlen := parseHeader_len _ _ _ _ _ hp
        have hel : ((contents.drop off).take (roff - off)).length = roff - off := by
          rw [List.length_take, List.length_drop]; omega
        simp only []
        by_cases hc : s > kl ∨ ns > ((contents.drop off).take (roff - off)).length - hl
            ∨ vs > ((contents.drop off).take (roff - off)).length - hl - ns
        · rw [if_pos hc, if_pos hc]; exact ⟨_, rfl, rfl⟩
        · rw [if_neg hc, if_neg hc]
          rw [hel] at hc hlen
          by_cases hr : nr < n ∧ fixed32At contents (roff + 4 * nr) = some off
          · rw [if_pos hr]
            by_cases hs : s ≠ 0
            · rw [if_pos hs, if_pos ⟨hr, hs⟩]; exact ⟨_, rfl, rfl⟩
            · rw [if_neg hs, if_neg (fun h => hs h.2), if_pos hr]
              simp only []
              have e : off + (hl + ns + vs) = off + hl + ns + vs := by omega
              rw [e]
              exact ih w _ _ _ (by omega) (by omega) (by omega)
          · rw [if_neg hr, if_neg (fun h => hr h.1), if_neg hr]
            simp only []
            have e : off + (hl + ns + vs) = off + hl + ns + vs := by omega
            rw [e]
            exact ih w _ _ _ (by omega) (by omega) (by omega)
    · rw [hbrk nr kl off hlt, if_neg hlt]
      refine ⟨_, rfl, ?_⟩
      simp only [flowVal, beq_iff_eq, decide_eq_decide]
      by_cases h : nr = n <;> simp [h]

theorem walk_loop_bind (contents : Bytes) (roff n : Nat) (hroff : roff ≤ contents.length)
    (body : Nat × Nat × Nat → Res (Rt.LStep (Nat × Nat × Nat) Bool))
    (hstep : ∀ nr kl off, off < roff → body (nr, kl, off) = stepSpec contents roff n nr kl off)
    (hbrk : ∀ nr kl off, ¬ off < roff → body (nr, kl, off) = .ok (.brk (nr, kl, off)))
    (fuel wfuel off kl nr : Nat) (h1 : off ≤ roff) (h2 : roff - off < fuel) (h3 : roff - off < wfuel)
    (k : Rt.Flow (Nat × Nat × Nat) Bool → Res Bool) (hk : ∀ fl, k fl = .ok (flowVal n fl)) :
    (Rt.loopFuel body fuel (nr, kl, off) >>= k) = .ok (Block.wfWalk contents roff n wfuel off kl nr) := by
  obtain ⟨fl, hfl, hv⟩ := walk_loop contents roff n hroff body hstep hbrk fuel wfuel off kl nr h1 h2 h3
  rw [hfl, bind_ok, hk, hv]

end FuncsTie.WellFormed

open FuncsTie.WellFormed

theorem Gen_block_is_well_formed_tie (contents : Bytes) (fuel : Nat) (hf : contents.length + 4 < fuel) :
    Gen.block_is_well_formed fuel contents = .ok (Block.isWellFormed contents) := by
  unfold Gen.block_is_well_formed Block.isWellFormed
  simp only []
  by_cases h8 : contents.length < 8
  · simp only [decide_eq_true h8, if_true, if_pos h8, Res.pure_eq]
  · have h4 : 4 ≤ contents.length := by omega
    have hs : contents.length - 4 ≤ contents.length := by omega
    have hl : (contents.drop (contents.length - 4)).length = 4 := by simp; omega
    have hd : Rt.divChk (contents.length - 4) 4 = fun _ => .ok ((contents.length - 4) / 4) := by
      funext s; unfold Rt.divChk; rw [if_neg (by decide)]
    simp only [decide_eq_false h8, Bool.false_eq_true, if_false, if_neg h8, subChk_ok h4, bind_ok,
      sliceChk_tail hs, decodeFixed32Chk_ok hl]
    generalize hn : decodeFixed32 (contents.drop (contents.length - 4)) = n
    by_cases hc : n = 0 ∨ n > (contents.length - 4) / 4
    · rw [if_pos hc]
      by_cases h0 : n = 0
      · subst h0
        simp only [beq_self_eq_true, if_true, Res.pure_eq, bind_ok]
      · have h0' : (n == 0) = false := by simp [h0]
        have hgt : n > (contents.length - 4) / 4 := by omega
        simp only [h0', Bool.false_eq_true, if_false, hd, bind_ok, Res.pure_eq, decide_eq_true hgt, if_true]
    · rw [if_neg hc]
      have h0' : (n == 0) = false := by
        have : n ≠ 0 := by omega
        simp [this]
      have hgt : ¬ n > (contents.length - 4) / 4 := by omega
      have hsub : 4 * n ≤ contents.length - 4 := by omega
      simp only [h0', Bool.false_eq_true, if_false, hd, bind_ok, Res.pure_eq, decide_eq_false hgt,
        subChk_ok hsub, Nat.mul_zero, Nat.add_zero]
      generalize hro : contents.length - 4 - 4 * n = roff
      have hroff : roff + 4 * n + 4 = contents.length := by omega
      have hs0 : roff ≤ roff + 4 := by omega
      have hs1 : roff + 4 ≤ contents.length := by omega
      have hl0 : ((contents.drop roff).take (roff + 4 - roff)).length = 4 := by
        rw [List.length_take, List.length_drop]; omega
      simp only [sliceChk_ok hs0 hs1, bind_ok, decodeFixed32Chk_ok hl0]
      unfold fixed32At
      simp only [slice?_some hs0 hs1, Option.map_some]
      generalize decodeFixed32 ((contents.drop roff).take (roff + 4 - roff)) = r0
      by_cases hr0 : r0 = 0
      · subst hr0
        have e1 : ((0 : Nat) != 0) = false := rfl
        rw [e1, if_neg (by decide), if_neg (show ¬ (some (0 : Nat) ≠ some 0) by simp)]
        by_cases hz : roff = 0
        · subst hz
          rw [if_pos (show ((0:Nat) == 0) = true from rfl), if_pos (show (0:Nat) = 0 from rfl)]
          apply congrArg
          by_cases h1 : n = 1 <;> simp [h1]
        · have hz' : (roff == 0) = false := by simp [hz]
          rw [hz', if_neg (by decide), if_neg hz]
          rw [walk_loop_bind contents roff n (by omega) _ ?hstep ?hbrk fuel (roff + 1) 0 0 0
            (Nat.zero_le _) (by omega) (by omega) _ ?hk]
          case hk =>
            intro fl
            cases fl with
            | ret r => rfl
            | done s => rfl
          case hbrk =>
            intro nr kl off hlt
            simp only [decide_eq_false hlt, Bool.false_eq_true, if_false]
          case hstep =>
            intro nr kl off hlt
            simp only [decide_eq_true hlt, if_true]
            have hle : off ≤ roff := by omega
            have hrl : roff ≤ contents.length := by omega
            unfold stepSpec
            simp only [sliceChk_ok hle hrl, bind_ok]
            generalize (contents.drop off).take (roff - off) = entry
            rw [header_loop entry _ ?hs ?hb fuel (by omega) _ List.length_replicate]
            case hb =>
              intro j hl ls hj
              simp only [decide_eq_false hj, Bool.false_eq_true, if_false]
            case hs =>
              intro j hl ls hj hhl
              simp only [decide_eq_true hj, if_true, idxN_ok hj, bind_ok, sliceChk_tail hhl]
              cases decodeVarint (entry.drop hl) with
              | none => rfl
              | some p => rfl
            unfold headerFlow
            cases hp : Block.parseHeader entry with
            | none => simp only [bind_ok]
            | some p =>
              obtain ⟨s, ns, vs, hl⟩ := p
              have hlen := parseHeader_len _ _ _ _ _ hp
              simp only [bind_ok]
              have i0 : ∀ site, Rt.idxN [s, ns, vs] 0 site = .ok s := fun _ => rfl
              have i1 : ∀ site, Rt.idxN [s, ns, vs] 1 site = .ok ns := fun _ => rfl
              have i2 : ∀ site, Rt.idxN [s, ns, vs] 2 site = .ok vs := fun _ => rfl
              have hsub1 : hl ≤ entry.length := hlen.2
              simp only [i0, i1, i2, bind_ok, subChk_ok hsub1]
              -- the three bounds checks
              by_cases c1 : s > kl
              · have c : s > kl ∨ ns > entry.length - hl ∨ vs > entry.length - hl - ns := Or.inl c1
                simp only [decide_eq_true c1, if_true, bind_ok, if_pos c]
              · by_cases c2 : ns > entry.length - hl
                · have c : s > kl ∨ ns > entry.length - hl ∨ vs > entry.length - hl - ns :=
                    Or.inr (Or.inl c2)
                  simp only [decide_eq_false c1, Bool.false_eq_true, if_false, bind_ok,
                    decide_eq_true c2, if_true, if_pos c]
                · have hsub2 : ns ≤ entry.length - hl := by omega
                  by_cases c3 : vs > entry.length - hl - ns
                  · have c : s > kl ∨ ns > entry.length - hl ∨ vs > entry.length - hl - ns :=
                      Or.inr (Or.inr c3)
                    simp only [decide_eq_false c1, decide_eq_false c2, Bool.false_eq_true, if_false,
                      bind_ok, subChk_ok hsub2, decide_eq_true c3, if_true, if_pos c]
                  · have c : ¬ (s > kl ∨ ns > entry.length - hl ∨ vs > entry.length - hl - ns) := by
                      omega
                    simp only [decide_eq_false c1, decide_eq_false c2, Bool.false_eq_true, if_false,
                      bind_ok, subChk_ok hsub2, decide_eq_false c3, if_neg c]
                    have hsne : (s != 0) = decide (s ≠ 0) := by
                      by_cases h : s = 0 <;> simp [h]
                    by_cases hn1 : nr < n
                    · have q0 : roff + 4 * nr ≤ roff + 4 * nr + 4 := by omega
                      have q1 : roff + 4 * nr + 4 ≤ contents.length := by omega
                      have ql : ((contents.drop (roff + 4 * nr)).take
                          (roff + 4 * nr + 4 - (roff + 4 * nr))).length = 4 := by
                        rw [List.length_take, List.length_drop]; omega
                      unfold fixed32At
                      simp only [decide_eq_true hn1, if_true, sliceChk_ok q0 q1, decodeFixed32Chk_ok ql,
                        bind_ok, slice?_some q0 q1, Option.map_some]
                      generalize decodeFixed32 ((contents.drop (roff + 4 * nr)).take
                          (roff + 4 * nr + 4 - (roff + 4 * nr))) = rp
                      by_cases hrp : rp = off
                      · subst hrp
                        rw [hsne, if_pos (show (rp == rp) = true by simp),
                          if_pos (show nr < n ∧ some rp = some rp from ⟨hn1, rfl⟩)]
                        by_cases hs0 : s ≠ 0
                        · rw [if_pos (show decide (s ≠ 0) = true by simp [hs0]), if_pos hs0]
                        · rw [if_neg (show ¬ decide (s ≠ 0) = true by simp [hs0]), if_neg hs0]
                      · rw [if_neg (show ¬ (rp == off) = true by simp [hrp]),
                          if_neg (show ¬ (nr < n ∧ some rp = some off) by simp [hrp])]
                    · have hcn : ¬ (nr < n ∧ fixed32At contents (roff + 4 * nr) = some off) :=
                        fun h => hn1 h.1
                      simp only [decide_eq_false hn1, Bool.false_eq_true, if_false, bind_ok, if_neg hcn]
      · have e1 : (r0 != 0) = true := by simp [hr0]
        rw [e1, if_pos rfl, if_pos (show some r0 ≠ some 0 by simp [hr0])]

end Sst

#print axioms Sst.Gen_block_is_well_formed_tie
