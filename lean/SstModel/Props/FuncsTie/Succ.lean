import SstModel.Generated.Funcs
import SstModel.Model.Filter
import SstModel.Model.Cmp
/- Function-level tie: cmp.rs `DefaultCmp::find_short_succ` (translated by tools/gen_funcs.py) equals the model. -/
namespace Sst.FuncsTie.Succ

/-- `findShortSucc` of a string of `0xff` bytes appends `0xff` -/
private theorem succ_all_ff (rest : Bytes) (h : ∀ x ∈ rest, x = 255) :
    DefaultCmp.findShortSucc rest = rest ++ [255] := by
  induction rest with
  | nil => rfl
  | cons x xs ih =>
    have hx : x = 255 := h x (by simp)
    subst hx
    rw [DefaultCmp.findShortSucc]
    simp
    exact ih (fun y hy => h y (by simp [hy]))

private theorem succ_ff_prefix (pre rest : Bytes) (h : ∀ x ∈ pre, x = 255) :
    DefaultCmp.findShortSucc (pre ++ rest) = pre ++ DefaultCmp.findShortSucc rest := by
  induction pre with
  | nil => rfl
  | cons x xs ih =>
    have hx : x = 255 := h x (by simp)
    subst hx
    rw [List.cons_append, DefaultCmp.findShortSucc]
    simp
    exact ih (fun y hy => h y (by simp [hy]))

/-- The loop of `find_short_succ`, for any body that behaves on the states `(i, a)` as described by
    `H1` (byte `0xff`: continue), `H2` (other byte: return the bumped prefix), `H3` (end: break). -/
private theorem loop_succ (body : Nat × Bytes → Res (Rt.LStep (Nat × Bytes) Bytes)) (a : Bytes)
    (H1 : ∀ i (h : i < a.length), a[i] = 255 → body (i, a) = .ok (.cont (i + 1, a)))
    (H2 : ∀ i (h : i < a.length), a[i] ≠ 255 →
      body (i, a) = .ok (.ret ((a.set i (a[i] + 1)).take (i + 1))))
    (H3 : body (a.length, a) = .ok (.brk (a.length, a))) :
    ∀ (rest pre : Bytes) (fuel : Nat), a = pre ++ rest → (∀ x ∈ pre, x = 255) → rest.length < fuel →
      Rt.loopFuel body fuel (pre.length, a) =
        if (∀ x ∈ rest, x = 255) then .ok (.done (a.length, a))
        else .ok (.ret (DefaultCmp.findShortSucc a)) := by
  intro rest
  induction rest with
  | nil =>
    intro pre fuel ha _ hf
    obtain ⟨n, rfl⟩ : ∃ n, fuel = n + 1 := ⟨fuel - 1, by simp at hf; omega⟩
    have hl : pre.length = a.length := by rw [ha]; simp
    rw [hl, Rt.loopFuel, H3]
    simp
  | cons x xs ih =>
    intro pre fuel ha hpre hf
    obtain ⟨n, rfl⟩ : ∃ n, fuel = n + 1 := ⟨fuel - 1, by simp at hf; omega⟩
    have hi : pre.length < a.length := by rw [ha]; simp
    have hx : a[pre.length] = x := by simp [ha]
    by_cases hff : x = 255
    · rw [Rt.loopFuel, H1 _ hi (by rw [hx]; exact hff)]
      have := ih (pre ++ [x]) n (by rw [ha]; simp)
        (by intro y hy; simp at hy; rcases hy with hy | hy; exact hpre y hy; rw [hy]; exact hff)
        (by simp at hf; omega)
      simp only [List.length_append, List.length_cons, List.length_nil, Nat.zero_add] at this
      show Rt.loopFuel body n _ = _
      rw [this]
      simp [hff]
    · rw [Rt.loopFuel, H2 _ hi (by rw [hx]; exact hff)]
      show Res.ok (Rt.Flow.ret _) = _
      have hne : ¬ (∀ y ∈ x :: xs, y = 255) := fun h => hff (h x (by simp))
      rw [if_neg hne]
      congr 2
      rw [hx]
      conv => rhs; rw [ha, succ_ff_prefix _ _ hpre, DefaultCmp.findShortSucc]
      subst ha
      simp [hff, List.take_append, List.take_of_length_le]

/-- the loop started at `(0, a)` -/
private theorem loop_succ0 (body : Nat × Bytes → Res (Rt.LStep (Nat × Bytes) Bytes)) (a : Bytes)
    (H1 : ∀ i (h : i < a.length), a[i] = 255 → body (i, a) = .ok (.cont (i + 1, a)))
    (H2 : ∀ i (h : i < a.length), a[i] ≠ 255 →
      body (i, a) = .ok (.ret ((a.set i (a[i] + 1)).take (i + 1))))
    (H3 : body (a.length, a) = .ok (.brk (a.length, a)))
    (fuel : Nat) (hf : a.length < fuel) :
    Rt.loopFuel body fuel (0, a) =
      if (∀ x ∈ a, x = 255) then .ok (.done (a.length, a))
      else .ok (.ret (DefaultCmp.findShortSucc a)) :=
  loop_succ body a H1 H2 H3 a [] fuel rfl (by simp) hf

end Sst.FuncsTie.Succ

namespace Sst
open Sst.FuncsTie.Succ

theorem Gen_find_short_succ_tie (a : Bytes) (fuel : Nat) (hf : a.length < fuel) :
    Gen.find_short_succ fuel a = .ok (DefaultCmp.findShortSucc a) := by
  unfold Gen.find_short_succ
  simp only []
  rw [loop_succ0 _ a ?H1 ?H2 ?H3 fuel hf]
  · by_cases hall : ∀ x ∈ a, x = 255
    · rw [if_pos hall, succ_all_ff a hall]
      rfl
    · rw [if_neg hall]
      rfl
  case H1 =>
    intro i h hi
    simp [Rt.idx, h, hi]
  case H2 =>
    intro i h hi
    have hne : ¬ a[i].toNat = 255 := fun e => hi (UInt8.toNat_inj.mp (by simpa using e))
    have hlt : a[i].toNat + 1 < 256 := by have := UInt8.toNat_lt a[i]; omega
    have hle : i + 1 ≤ a.length := h
    simp [Rt.idx, Rt.setIdx, Rt.addW, Rt.resizeB, h, hne, hlt, hle]
  case H3 =>
    simp
end Sst

#print axioms Sst.Gen_find_short_succ_tie
