import SstModel.Props.FuncsTie.BlockBuilderFn
/-
  C16 at block level for the code AS TRANSLATED from block_builder.rs: a key that is not above the previous key of
  a non-empty block is refused (the translated `BlockBuilder::add` panics) - whatever the comparator, the restart
  interval and the contents; and a key that IS above it is accepted with exactly the model's new state.
-/
namespace Sst

theorem C16_block_add_refuses_of_the_translated_code (cmp : Cmp) (b : BlockBuilder) (key val : Bytes) (fuel : Nat)
    (hf : key.length < fuel) (hk : key.length < 2 ^ 64) (hc : b.restartCounter + 1 < 2 ^ 64) (hn : b.counter + 1 < 2 ^ 64)
    (hne : b.buffer.isEmpty = false) (hbad : cmp.cmp b.lastKey key ≠ .lt) :
    (Gen.bb_add fuel cmp b key val).isPanic = true := by
  have hs := Gen_bb_add_tie cmp b key val fuel hf hk hc hn
  have hm : (BlockBuilder.add cmp b key val).isPanic = true := by
    unfold BlockBuilder.add
    by_cases h1 : b.restartCounter ≤ b.restartInterval
    · have hcmp : (cmp.cmp b.lastKey key == Ordering.lt) = false := by
        cases hcm : cmp.cmp b.lastKey key <;> simp_all
      simp [assert, h1, hne, hcmp, Res.isPanic, bind, Res.bind]
    · simp [assert, h1, Res.isPanic, bind, Res.bind]
  cases hg : Gen.bb_add fuel cmp b key val <;> cases hmm : BlockBuilder.add cmp b key val <;>
    simp_all [Res.same, Res.isPanic]

theorem C16_block_add_accepts_of_the_translated_code (cmp : Cmp) (b : BlockBuilder) (key val : Bytes) (fuel : Nat)
    (hf : key.length < fuel) (hk : key.length < 2 ^ 64) (hc : b.restartCounter + 1 < 2 ^ 64) (hn : b.counter + 1 < 2 ^ 64)
    (b' : BlockBuilder) (hok : BlockBuilder.add cmp b key val = .ok b') :
    Gen.bb_add fuel cmp b key val = .ok b' := by
  have hs := Gen_bb_add_tie cmp b key val fuel hf hk hc hn
  rw [hok] at hs
  exact Res.same_ok hs

#print axioms C16_block_add_refuses_of_the_translated_code
#print axioms C16_block_add_accepts_of_the_translated_code

end Sst
