import SstModel.Lemmas.BlockBuild
import SstModel.Lemmas.BlockValidateComplete
import SstModel.Props.FuncsTie.WellFormed
import SstModel.Props.FuncsTie.BlockBuilderFn
/-
  Writer meets reader, on translated code: every block the block builder finishes for a strictly sorted entry list
  (the builder model, which the translated `BlockBuilder::add` / `finish` reproduce step by step: `Gen_bb_add_tie`,
  `Gen_bb_finish_tie`) is accepted by the TRANSLATED `Block::is_well_formed` - the check every block must pass
  before the reader hands out an iterator.
-/
namespace Sst

theorem C05_built_block_passes_the_translated_validator (cmp : Cmp) (ri : Nat) (hri : 1 ≤ ri)
    (kvs : List (Bytes × Bytes)) (hs : Spec.StrictSorted cmp kvs) (fuel : Nat) :
    ∃ bb, BlockBuilder.addAll cmp (BlockBuilder.new ri) kvs = .ok bb ∧
      (bb.finish.length < 2 ^ 32 → bb.finish.length + 4 < fuel →
        Gen.block_is_well_formed fuel bb.finish = .ok true) := by
  obtain ⟨bb, hall, _, _, hwf⟩ := blockBuilder_wf cmp ri hri kvs hs
  refine ⟨bb, hall, ?_⟩
  intro hsmall hf
  obtain ⟨es, rs, wf, _⟩ := hwf hsmall
  rw [Gen_block_is_well_formed_tie bb.finish fuel hf, isWellFormed_complete bb.finish es rs wf]

/-- and the translated `finish` returns exactly those bytes -/
theorem C05_translated_finish_returns_the_model_block (b : BlockBuilder) (fuel : Nat) (hf : b.restarts.length < fuel)
    (hcap : b.restarts.length * 4 + 4 < 2 ^ 64) :
    ∃ b', Gen.bb_finish fuel b = .ok (b', b.finish) :=
  ⟨_, Gen_bb_finish_tie b fuel hf hcap⟩

#print axioms C05_built_block_passes_the_translated_validator
#print axioms C05_translated_finish_returns_the_model_block

end Sst
