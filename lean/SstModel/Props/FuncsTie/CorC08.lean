import SstModel.Props.FuncsTie.WellFormed
import SstModel.Props.FuncsTie.CodecDecode
/-
  Property statements about the code AS TRANSLATED from /repo/src on this run (no hand-written model in the
  statement): each is the property theorem about the model composed with the tie theorem of the function.
  They are re-checked whenever the Rust function changes.
-/
namespace Sst
open DefaultCmp

/-- C08 for the translation of `Block::is_well_formed` (block.rs): on EVERY byte string the validator terminates
    with a verdict - no index, slice or subtraction out of range. -/
theorem C08_validator_total_of_the_translated_code (contents : Bytes) :
    ∃ v, Gen.block_is_well_formed (contents.length + 5) contents = .ok v :=
  ⟨_, Gen_block_is_well_formed_tie contents _ (by omega)⟩

/-- C08 / C15 for the translations of `Footer::try_decode` and `BlockHandle::try_decode`: total on every byte
    string; a buffer shorter than 48 bytes is never a footer. -/
theorem C15_short_footer_rejected_by_the_translated_code (buf : Bytes) (h : buf.length < 48) :
    Gen.footer_try_decode buf = .ok none := by
  rw [Gen_footer_try_decode_tie]
  unfold Footer.tryDecode
  have : buf.length < Consts.fullFooterLength := h
  simp [this]

theorem C08_decoders_total_of_the_translated_code (buf : Bytes) :
    (∃ r, Gen.footer_try_decode buf = .ok r) ∧ (∃ r, Gen.bh_try_decode buf = .ok r) :=
  ⟨⟨_, Gen_footer_try_decode_tie buf⟩, ⟨_, Gen_bh_try_decode_tie buf⟩⟩

#print axioms C08_validator_total_of_the_translated_code
#print axioms C15_short_footer_rejected_by_the_translated_code
#print axioms C08_decoders_total_of_the_translated_code

end Sst
