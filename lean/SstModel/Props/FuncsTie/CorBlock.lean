import SstModel.Lemmas.BlockSeek
import SstModel.Lemmas.BlockAdvance
import SstModel.Lemmas.BlockPrev
import SstModel.Props.FuncsTie.BlockIterBack
import SstModel.Props.FuncsTie.BlockIterSeek
/-
  C03 / C04 at block level for the code AS TRANSLATED from block.rs on this run: on every well-formed block
  (`BlockWF`: what `Block::is_well_formed` accepts, see `isWellFormed_sound`) the translated `BlockIter::seek`
  and `BlockIter::advance` do not panic and land where the Spec cursor says - the refinement theorems of the hand
  model composed with the tie theorems.
-/
namespace Sst

/-- the translated `BlockIter::seek` positions the iterator at the least entry whose key is not below the target -/
theorem C03_block_seek_of_the_translated_code {b es rs it pos} (cmp : Cmp) (hc : cmp.Lawful) (wf : BlockWF b es rs)
    (hsmall : b.length < 2 ^ 64) (hsorted : KeysSorted cmp (es.map (·.key))) (h : SimB b es rs it pos) (t : Bytes)
    (fuel : Nat) (hfuel : b.length + it.numberRestarts + 4 < fuel) :
    ∃ it', Gen.bi_seek fuel cmp it t = .ok it' ∧ SimB b es rs it' (Spec.lowerBound cmp (kvOf b es) t) := by
  obtain ⟨it', hs, hsim⟩ := simB_seek cmp hc wf hsmall hsorted h t
  refine ⟨it', ?_, hsim⟩
  have hb : it.block = b := h.block
  have hlen : it.block.length < 2 ^ 64 := by rw [hb]; exact hsmall
  have h4 : 4 ≤ it.block.length := by rw [hb]; have := wf.len; omega
  have hnd : it.seek cmp t ≠ .diverge := by rw [hs]; intro hh; cases hh
  have := Gen_bi_seek_tie cmp it t fuel hlen h4 (by rw [hb]; exact hfuel) hnd
  rw [hs] at this
  exact Res.same_ok this

/-- the translated `BlockIter::advance` moves exactly like the Spec cursor and returns its verdict -/
theorem C04_block_advance_of_the_translated_code {b es rs it pos} (wf : BlockWF b es rs) (hsmall : b.length < 2 ^ 64)
    (h : SimB b es rs it pos) (fuel : Nat) (hfuel : it.numberRestarts < fuel) :
    ∃ it', Gen.bi_advance fuel it = .ok (it', (Spec.advance (kvOf b es) pos).2)
      ∧ SimB b es rs it' (Spec.advance (kvOf b es) pos).1 := by
  obtain ⟨it', hs, hsim⟩ := simB_advance wf hsmall h
  refine ⟨it', ?_, hsim⟩
  have hb : it.block = b := h.block
  have hlen : it.block.length < 2 ^ 64 := by rw [hb]; exact hsmall
  have h4 : 4 ≤ it.block.length := by rw [hb]; have := wf.len; omega
  have hix : it.curRestartIx + 1 < 2 ^ 64 := by
    have h1 := h.rix
    have h2 := wf.fits
    omega
  have := Gen_bi_advance_tie it fuel hlen h4 hix hfuel
  rw [hs] at this
  exact Res.same_ok this

/-- the translated `BlockIter::prev` from a valid position steps back exactly like the Spec cursor -/
theorem C04_block_prev_of_the_translated_code {b es rs it i} (wf : BlockWF b es rs) (hsmall : b.length < 2 ^ 64)
    (h : SimB b es rs it (some i)) (fuel : Nat)
    (hfuel : b.length + it.numberRestarts + it.curRestartIx + 4 < fuel) :
    ∃ it', Gen.bi_prev fuel it = .ok (it', (Spec.prevValid i).2) ∧ SimB b es rs it' (Spec.prevValid i).1 := by
  obtain ⟨it', hs, hsim⟩ := simB_prev_valid wf hsmall h
  refine ⟨it', ?_, hsim⟩
  have hb : it.block = b := h.block
  have hlen : it.block.length < 2 ^ 64 := by rw [hb]; exact hsmall
  have h4 : 4 ≤ it.block.length := by rw [hb]; have := wf.len; omega
  have hix : it.curRestartIx + 1 < 2 ^ 64 := by
    have h1 := h.rix
    have h2 := wf.fits
    omega
  have hnd : it.prev ≠ .diverge := by rw [hs]; intro hh; cases hh
  have := Gen_bi_prev_tie it fuel hlen h4 hix (by rw [hb]; exact hfuel) hnd
  rw [hs] at this
  exact Res.same_ok this

#print axioms C03_block_seek_of_the_translated_code
#print axioms C04_block_advance_of_the_translated_code
#print axioms C04_block_prev_of_the_translated_code

end Sst
