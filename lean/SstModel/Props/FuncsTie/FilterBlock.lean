import SstModel.Generated.Funcs
import SstModel.Model.Filter
import SstModel.Props.FuncsTie.FilterIndex
import SstModel.Props.FuncsTie.Same
/-
  Function-level tie for filter_block.rs: the regenerated translations of
  `FilterBlockReader::{is_well_formed, num, offset_of, key_may_match}` equal the model functions for every
  input, panics included (up to the panic-site string).
-/
namespace Sst
open Sst.Rt

theorem Gen_fbr_is_well_formed_tie (data : Bytes) :
    Gen.fbr_is_well_formed data = .ok (FilterBlockReader.isWellFormed data) := by
  unfold Gen.fbr_is_well_formed FilterBlockReader.isWellFormed
  by_cases h : data.length < 5
  · simp [h]
  · have h5 : 5 ≤ data.length := by omega
    have hi : data.length - 1 < data.length := by omega
    simp only [h, decide_false, Bool.false_eq_true, if_false, subChk, idx, sliceChk, slice?, decodeFixed32Chk]
    simp only [show (1 ≤ data.length) from by omega, show (5 ≤ data.length) from by omega, if_true,
      List.getElem?_eq_getElem hi, Res.pure_eq, bind, Res.bind]
    have hs : data.length - 5 ≤ data.length - 1 ∧ data.length - 1 ≤ data.length := by omega
    simp only [hs, and_self, if_true]
    have hl : (List.take (data.length - 1 - (data.length - 5)) (List.drop (data.length - 5) data)).length = 4 := by
      simp; omega
    simp only [hl, if_true]
    have e1 : data.length - 1 - (data.length - 5) = 4 := by omega
    have e2 : (data.getD (data.length - 1) 0) = data[data.length - 1] := by
      simp [List.getD, List.getElem?_eq_getElem hi]
    rw [e1, e2]
    by_cases hb : (data[data.length - 1]).toNat < 64 <;> simp [hb]

theorem Gen_fbr_num_tie (block : Bytes) (oo : Nat) :
    Res.same (Gen.fbr_num block oo) (FilterBlockReader.num ⟨block, oo, 0⟩) := by
  unfold Gen.fbr_num FilterBlockReader.num
  simp only [subChk, divChk, bind, Res.bind, Res.pure_eq]
  by_cases h1 : oo ≤ block.length
  · by_cases h2 : 5 ≤ block.length - oo
    · have : ¬ block.length < oo + 5 := by omega
      simp [h1, h2, this, Res.same]
    · have : block.length < oo + 5 := by omega
      simp [h1, h2, this, Res.same]
  · have : block.length < oo + 5 := by omega
    simp [h1, this, Res.same]

theorem Gen_fbr_num_indep (block : Bytes) (oo b : Nat) :
    FilterBlockReader.num ⟨block, oo, b⟩ = FilterBlockReader.num ⟨block, oo, 0⟩ := rfl

theorem Gen_fbr_offset_of_tie (block : Bytes) (oo i : Nat) :
    Res.same (Gen.fbr_offset_of block oo i) (FilterBlockReader.offsetOf ⟨block, oo, 0⟩ i) := by
  unfold Gen.fbr_offset_of FilterBlockReader.offsetOf fixed32At
  simp only [sliceChk, decodeFixed32Chk, bind, Res.bind]
  cases hs : slice? block (oo + 4 * i) (oo + 4 * i + 4) with
  | none => simp [Res.same]
  | some s =>
    have hl : s.length = 4 := by
      unfold slice? at hs
      split at hs
      · cases hs; simp; omega
      · cases hs
    simp [hl, Res.same]

/-- `FilterBlockReader::key_may_match`: the translation equals the model for every block, every trailer fields,
    every policy, every block offset and key - same answer, or both panic. -/
theorem Gen_fbr_key_may_match_tie (p : FilterPolicy) (block : Bytes) (oo b off : Nat) (key : Bytes) :
    Res.same (Gen.fbr_key_may_match block oo b p.keyMayMatch off key)
             (FilterBlockReader.keyMayMatch p ⟨block, oo, b⟩ off key) := by
  unfold Gen.fbr_key_may_match FilterBlockReader.keyMayMatch
  by_cases hb : b ≥ 64
  · have hp := Gen_get_filter_index_panics off b hb
    cases hg : Gen.get_filter_index off b with
    | panic s => simp [hb, bind, Res.bind, Res.same]
    | ok _ => simp [hg, Res.isPanic] at hp
    | err _ => simp [hg, Res.isPanic] at hp
    | diverge => simp [hg, Res.isPanic] at hp
  · have hb' : b < 64 := by omega
    have hg := Gen_get_filter_index_tie off b hb'
    simp only [hb, if_false, hg, bind, Res.bind, Res.pure_eq]
    have hn := Gen_fbr_num_tie block oo
    rw [← Gen_fbr_num_indep block oo b] at hn
    rcases Res.same_cases hn with ⟨n, h1, h2⟩ | ⟨s, s', h1, h2⟩ | ⟨c, h1, h2⟩ | ⟨h1, h2⟩
    · simp only [h1, h2]
      by_cases hix : FilterBlockBuilder.filterIndex off b ≥ n
      · simp [hix, Res.same]
      · simp only [hix, decide_false, Bool.false_eq_true, if_false]
        have hlt : FilterBlockBuilder.filterIndex off b + 1 < 4294967296 := by
          have : n < 4294967296 := by
            unfold FilterBlockReader.num at h2
            split at h2
            · cases h2
            · injection h2 with h2; omega
          omega
        have ho1 := Gen_fbr_offset_of_tie block oo (FilterBlockBuilder.filterIndex off b)
        have ho2 := Gen_fbr_offset_of_tie block oo (FilterBlockBuilder.filterIndex off b + 1)
        have e1 : FilterBlockReader.offsetOf ⟨block, oo, b⟩ (FilterBlockBuilder.filterIndex off b)
            = FilterBlockReader.offsetOf ⟨block, oo, 0⟩ (FilterBlockBuilder.filterIndex off b) := rfl
        have e2 : FilterBlockReader.offsetOf ⟨block, oo, b⟩ (FilterBlockBuilder.filterIndex off b + 1)
            = FilterBlockReader.offsetOf ⟨block, oo, 0⟩ (FilterBlockBuilder.filterIndex off b + 1) := rfl
        rw [e1, e2]
        rcases Res.same_cases ho1 with ⟨x, a1, a2⟩ | ⟨s, s', a1, a2⟩ | ⟨c, a1, a2⟩ | ⟨a1, a2⟩
        · simp only [a1, a2, addW, hlt, if_true]
          rcases Res.same_cases ho2 with ⟨y, b1, b2⟩ | ⟨s, s', b1, b2⟩ | ⟨c, b1, b2⟩ | ⟨b1, b2⟩
          · simp only [b1, b2]
            by_cases hr : x ≥ y ∨ y > oo
            · rcases hr with hr | hr <;> simp [hr, Res.same]
            · have hr1 : ¬ x ≥ y := fun h => hr (Or.inl h)
              have hr2 : ¬ y > oo := fun h => hr (Or.inr h)
              simp only [hr, hr1, hr2, decide_false, Bool.or_self, Bool.false_eq_true, if_false, sliceChk]
              cases slice? block x y <;> simp [Res.same]
          · simp [b1, b2, Res.same]
          · simp [b1, b2, Res.same]
          · simp [b1, b2, Res.same]
        · simp [a1, a2, Res.same]
        · simp [a1, a2, Res.same]
        · simp [a1, a2, Res.same]
    · simp [h1, h2, Res.same]
    · simp [h1, h2, Res.same]
    · simp [h1, h2, Res.same]

#print axioms Gen_fbr_is_well_formed_tie
#print axioms Gen_fbr_num_tie
#print axioms Gen_fbr_offset_of_tie
#print axioms Gen_fbr_key_may_match_tie

end Sst
