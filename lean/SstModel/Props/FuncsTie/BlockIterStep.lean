import SstModel.Generated.Funcs
import SstModel.Model.Block
import SstModel.Props.FuncsTie.Same
import SstModel.Props.FuncsTie.BlockIterBasic
/-
  Function-level tie for block.rs, part 2: the regenerated translations of
  `BlockIter::{seek_to_restart_point, advance}` compute the model functions
  `BlockIter.seekToRestartPoint` / `BlockIter.advance` (Model/Block.lean) for every input, panics included
  (up to the text of the panic site).

  Hypotheses of `advance` (each one excludes a genuine difference, exhibited at the end of the file):
  * `4 ≤ it.block.length`: Rust's `number_restarts` slices `block[len-4..]` and panics on a shorter block,
    the model's `numberRestarts` is total (`Block::new` asserts `len > 4`, so no iterator has such a block);
  * `it.curRestartIx + 1 < 2^64`: Rust evaluates `current_restart_ix + 1` (checked in a debug build) before
    comparing it with the number of restarts, the model compares unbounded naturals.
-/
set_option linter.unusedSimpArgs false
namespace Sst
open FuncsTie.BlockIterBasic

namespace FuncsTie.BlockIterStep

theorem assert_same (c : Bool) (s s' : String) : Res.same (Rt.assertR c s) (assert c s') := by
  cases c <;> simp only [Rt.assertR, assert, Res.same, if_true, if_false, Bool.false_eq_true]

/-- one iteration of the restart-index loop of `advance`, as the model's `adjustRestartIx` performs it -/
def stepM (n : Nat) (s : BlockIter) : Res (Rt.LStep BlockIter (BlockIter × Bool)) :=
  if s.curRestartIx + 1 < n then
    match s.getRestartPoint (s.curRestartIx + 1) with
    | .ok rp =>
      if rp < s.curEntryOff then .ok (.cont { s with curRestartIx := s.curRestartIx + 1 })
      else .ok (.brk s)
    | .panic m => .panic m
    | .err c => .err c
    | .diverge => .diverge
  else .ok (.brk s)

theorem loopFuel_succ {σ ρ : Type} (body : σ → Res (Rt.LStep σ ρ)) (n : Nat) (s : σ) :
    Rt.loopFuel body (n + 1) s =
      match body s with
      | .ok (.cont s') => Rt.loopFuel body n s'
      | .ok (.brk s') => .ok (.done s')
      | .ok (.ret r) => .ok (.ret r)
      | .err c => .err c
      | .panic m => .panic m
      | .diverge => .diverge := rfl

/-- a loop whose body behaves like `stepM` computes `adjustRestartIx`, whenever both fuels suffice -/
theorem loop_same (B : Bytes) (body : BlockIter → Res (Rt.LStep BlockIter (BlockIter × Bool)))
    (hbody : ∀ s : BlockIter, s.block = B → s.curRestartIx + 1 < 2 ^ 64 →
      Res.same (body s) (stepM (decodeFixed32 (B.drop (B.length - 4))) s)) :
    ∀ (f g : Nat) (s : BlockIter), s.block = B → s.curRestartIx + 1 < 2 ^ 64 →
      decodeFixed32 (B.drop (B.length - 4)) ≤ s.curRestartIx + f →
      0 < g → decodeFixed32 (B.drop (B.length - 4)) < s.curRestartIx + g →
      Res.same (Rt.loopFuel body g s) (s.adjustRestartIx f >>= fun s' => .ok (Rt.Flow.done s')) := by
  intro f
  induction f with
  | zero =>
    intro g s hs hc hf hg0 hg
    obtain ⟨g', rfl⟩ : ∃ g', g = g' + 1 := ⟨g - 1, by omega⟩
    have hb := hbody s hs hc
    have hn : ¬ s.curRestartIx + 1 < decodeFixed32 (B.drop (B.length - 4)) := by omega
    simp only [stepM, if_neg hn] at hb
    have hb' := Res.same_ok hb
    simp only [loopFuel_succ, hb', BlockIter.adjustRestartIx, bind_ok, Res.same]
  | succ f ih =>
    intro g s hs hc hf hg0 hg
    obtain ⟨g', rfl⟩ : ∃ g', g = g' + 1 := ⟨g - 1, by omega⟩
    have hb := hbody s hs hc
    have hN : s.numberRestarts = decodeFixed32 (B.drop (B.length - 4)) := by
      unfold BlockIter.numberRestarts; rw [hs]
    have hlt32 := decodeFixed32_lt (B.drop (B.length - 4))
    unfold BlockIter.adjustRestartIx
    rw [hN]
    by_cases hlt : s.curRestartIx + 1 < decodeFixed32 (B.drop (B.length - 4))
    · simp only [stepM, if_pos hlt] at hb
      simp only [if_pos hlt]
      cases hrp : s.getRestartPoint (s.curRestartIx + 1) with
      | ok rp =>
        simp only [hrp] at hb
        by_cases hr : rp < s.curEntryOff
        · simp only [if_pos hr] at hb
          have hb' := Res.same_ok hb
          simp only [loopFuel_succ, hb', if_pos hr]
          exact ih g' { s with curRestartIx := s.curRestartIx + 1 } hs (by simp only; omega)
            (by simp only; omega) (by omega) (by simp only; omega)
        · simp only [if_neg hr] at hb
          have hb' := Res.same_ok hb
          simp only [loopFuel_succ, hb', if_neg hr, bind_ok, Res.same]
      | panic m =>
        simp only [hrp] at hb
        rcases Res.same_cases hb with ⟨a, _, h2⟩ | ⟨x, y, h1, _⟩ | ⟨c, _, h2⟩ | ⟨_, h2⟩
        · cases h2
        · simp only [loopFuel_succ, h1, bind_panic, Res.same]
        · cases h2
        · cases h2
      | err c =>
        simp only [hrp] at hb
        rcases Res.same_cases hb with ⟨a, _, h2⟩ | ⟨x, y, _, h2⟩ | ⟨c', h1, h2⟩ | ⟨_, h2⟩
        · cases h2
        · cases h2
        · cases h2
          simp only [loopFuel_succ, h1, Res.bind_err, Res.same]
        · cases h2
      | diverge =>
        simp only [hrp] at hb
        rcases Res.same_cases hb with ⟨a, _, h2⟩ | ⟨x, y, _, h2⟩ | ⟨c', _, h2⟩ | ⟨h1, _⟩
        · cases h2
        · cases h2
        · cases h2
        · simp only [loopFuel_succ, h1, Res.bind_diverge, Res.same]
    · simp only [stepM, if_neg hlt] at hb
      have hb' := Res.same_ok hb
      simp only [loopFuel_succ, hb', if_neg hlt, bind_ok, Res.same]

theorem same_bind_flow {β} {r : Res (Rt.Flow BlockIter β)} {m : Res BlockIter}
    {k : Rt.Flow BlockIter β → Res β} {g : BlockIter → Res β}
    (h : Res.same r (m >>= fun s' => .ok (Rt.Flow.done s')))
    (hk : ∀ a, Res.same (k (.done a)) (g a)) : Res.same (r >>= k) (m >>= g) := by
  cases m with
  | ok a =>
    simp only [bind_ok] at h
    rw [Res.same_ok h]
    simp only [bind_ok]
    exact hk a
  | err c =>
    simp only [Res.bind_err] at h
    cases r <;> simp only [Res.same] at h
    subst h; exact Res.same_refl _
  | panic s =>
    simp only [bind_panic] at h
    cases r <;> simp only [Res.same] at h
    exact same_panic _ _
  | diverge =>
    simp only [Res.bind_diverge] at h
    cases r <;> simp only [Res.same] at h
    exact Res.same_refl _

end FuncsTie.BlockIterStep

open FuncsTie.BlockIterStep

/-! ### seek_to_restart_point -/

theorem Gen_bi_seek_to_restart_point_tie (it : BlockIter) (ix : Nat) (hlen : it.block.length < 2 ^ 64) :
    Res.same (Gen.bi_seek_to_restart_point it ix) (it.seekToRestartPoint ix) := by
  unfold Gen.bi_seek_to_restart_point BlockIter.seekToRestartPoint
  refine same_bind (Gen_bi_get_restart_point_tie it ix hlen) ?_
  intro off hoff
  have hoff32 := getRestartPoint_lt hoff
  dsimp only
  refine same_bind_drop (Gen_bi_parse_entry_and_advance_tie _ hlen) ?_
  intro it1 s ns v hl hm
  obtain ⟨hb1, _, _, _, _, hhl⟩ := parseEntryAndAdvance_ok hm
  dsimp only at hhl hb1 ⊢
  refine same_bind (assert_same _ _ _) ?_
  intro _ _
  have ha : off + hl < 18446744073709551616 := by omega
  simp only [addW_ok ha, bind_ok]
  refine same_bind (Gen_bi_assemble_key_tie it1 _ _ _ (by rw [hb1]; exact hlen)) ?_
  intro it2 _
  simp only [Gen_bi_valid_tie, bind_ok]
  refine same_bind (assert_same _ _ _) ?_
  intro _ _
  exact Res.same_refl _

/-! ### advance -/

theorem Gen_bi_advance_tie (it : BlockIter) (fuel : Nat) (hlen : it.block.length < 2 ^ 64)
    (h4 : 4 ≤ it.block.length) (hix : it.curRestartIx + 1 < 2 ^ 64) (hfuel : it.numberRestarts < fuel) :
    Res.same (Gen.bi_advance fuel it) it.advance := by
  unfold Gen.bi_advance BlockIter.advance
  by_cases h0 : it.offset ≥ it.restartsOff
  · simp only [decide_eq_true h0, if_true, if_pos h0, Gen_bi_reset_tie, bind_ok, Res.pure_eq, Res.same]
  · simp only [decide_eq_false h0, Bool.false_eq_true, if_false, if_neg h0]
    refine same_bind_drop (Gen_bi_parse_entry_and_advance_tie _ hlen) ?_
    intro it1 s ns v hl hm
    obtain ⟨hb1, _, hc1, _, _, hhl⟩ := parseEntryAndAdvance_ok hm
    dsimp only at hhl hb1 hc1 ⊢
    have ha : it.offset + hl < 18446744073709551616 := by omega
    simp only [addW_ok ha, bind_ok]
    refine same_bind (Gen_bi_assemble_key_tie it1 _ _ _ (by rw [hb1]; exact hlen)) ?_
    intro it2 hm2
    obtain ⟨hb2, _, hc2, _, _, _⟩ := assembleKey_ok hm2
    have hB : it2.block = it.block := by rw [hb2, hb1]
    have hN : it2.numberRestarts = it.numberRestarts := by
      unfold BlockIter.numberRestarts; rw [hB]
    rw [Gen_bi_number_restarts_tie it2 (by rw [hB]; exact h4)]
    simp only [bind_ok]
    have hN' : it2.numberRestarts = decodeFixed32 (it.block.drop (it.block.length - 4)) := by
      unfold BlockIter.numberRestarts; rw [hB]
    have hN'' : it.numberRestarts = decodeFixed32 (it.block.drop (it.block.length - 4)) := rfl
    simp only [hN']
    refine same_bind_flow (loop_same it.block _ ?_ _ fuel it2 hB (by omega) (by omega) (by omega) (by omega)) ?_
    · intro st hst hc
      have a1 : st.curRestartIx + 1 < 18446744073709551616 := by omega
      have ht := Gen_bi_get_restart_point_tie st (st.curRestartIx + 1) (by rw [hst]; exact hlen)
      simp only [addW_ok a1, bind_ok, stepM]
      by_cases hlt : st.curRestartIx + 1 < decodeFixed32 (it.block.drop (it.block.length - 4))
      · simp only [decide_eq_true hlt, if_true, if_pos hlt]
        rcases Res.same_cases ht with ⟨rp, e1, e2⟩ | ⟨x, y, e1, e2⟩ | ⟨c, e1, e2⟩ | ⟨e1, e2⟩
        · simp only [e1, e2, bind_ok, Res.pure_eq]
          by_cases hr : rp < st.curEntryOff
          · simp only [decide_eq_true hr, if_true, if_pos hr, Res.same]
          · simp only [decide_eq_false hr, Bool.false_eq_true, if_false, if_neg hr, Res.same]
        · simp only [e1, e2, bind_panic, Res.same]
        · simp only [e1, e2, Res.bind_err, Res.same]
        · simp only [e1, e2, Res.bind_diverge, Res.same]
      · simp only [decide_eq_false hlt, Bool.false_eq_true, if_false, if_neg hlt, Res.pure_eq, bind_ok, Res.same]
    · intro a
      exact Res.same_refl _

/-! ### the two hypotheses of `Gen_bi_advance_tie` are needed -/

/-- a 3-byte block holding one entry (three zero varints), restarts_off = 3 -/
def advShortBlock : BlockIter := { block := [0, 0, 0], restartsOff := 3 }

/-- On a block shorter than 4 bytes the translated `advance` panics in `number_restarts`
    (`block[len-4..]`), the model's `advance` succeeds: its `numberRestarts` is total. -/
theorem Gen_bi_advance_short_block_differs (fuel : Nat) :
    (Gen.bi_advance fuel advShortBlock).isPanic = true ∧
    advShortBlock.advance =
      .ok ({ block := [0, 0, 0], restartsOff := 3, offset := 3, valOffset := 3 }, true) := by
  constructor
  · rfl
  · rfl

/-- a well-sized block (one entry, restart count 0) with `current_restart_ix = usize::MAX` -/
def advMaxIx : BlockIter :=
  { block := [0, 0, 0, 0, 0, 0, 0], restartsOff := 3, curRestartIx := 18446744073709551615 }

/-- With `current_restart_ix = usize::MAX` the translated `advance` panics on `current_restart_ix + 1`
    (checked addition), the model's `advance` compares unbounded naturals and succeeds. -/
theorem Gen_bi_advance_max_ix_differs (fuel : Nat) :
    (Gen.bi_advance (fuel + 1) advMaxIx).isPanic = true ∧
    advMaxIx.advance =
      .ok ({ block := [0, 0, 0, 0, 0, 0, 0], restartsOff := 3, offset := 3, valOffset := 3,
             curRestartIx := 18446744073709551615 }, true) := by
  constructor
  · rfl
  · rfl

#print axioms Gen_bi_seek_to_restart_point_tie
#print axioms Gen_bi_advance_tie
#print axioms Gen_bi_advance_short_block_differs
#print axioms Gen_bi_advance_max_ix_differs

end Sst
