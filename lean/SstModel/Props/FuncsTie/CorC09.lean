import SstModel.Props.C09
import SstModel.Props.FuncsTie.BloomFn
/-
  Property statements about the code AS TRANSLATED from /repo/src on this run (no hand-written model in the
  statement): each is the property theorem about the model composed with the tie theorem of the function.
  They are re-checked whenever the Rust function changes.
-/
namespace Sst
open DefaultCmp

/-- C09 for the translation of `BloomPolicy::key_may_match` (filter.rs): a key that is among the keys a filter was
    created from (by a policy of any bits-per-key) is never rejected by the translated reader. -/
theorem C09_bloom_of_the_translated_reader (bw : Nat) (keys : List Bytes) (key : Bytes)
    (hfit : Bloom.FitsBits bw keys) (hmem : key ∈ keys) (fuel : Nat) (hf : key.length < fuel) (hk : 256 ≤ fuel)
    (hlen : key.length * 3332679571 < 2 ^ 64) (hfl : ((Bloom.policy bw).createFilter keys).length < 2 ^ 61) :
    Gen.bloom_key_may_match fuel key ((Bloom.policy bw).createFilter keys) = .ok true := by
  rw [Gen_bloom_key_may_match_tie key _ fuel hf hk hlen hfl]
  have := C09_bloom bw 0 keys key hfit hmem
  simp only [Bloom.policy] at this
  simp only [Bloom.policy]
  rw [this]

#print axioms C09_bloom_of_the_translated_reader

end Sst
