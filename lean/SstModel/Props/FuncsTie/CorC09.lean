import SstModel.Props.C09
import SstModel.Props.FuncsTie.BloomFn
import SstModel.Props.FuncsTie.BloomCreate
/-
  Property statements about the code AS TRANSLATED from /repo/src on this run (no hand-written model in the
  statement): each is the property theorem about the model composed with the tie theorem of the function.
  They are re-checked whenever the Rust function changes.
-/
namespace Sst
open DefaultCmp

/-- C09 for the translation of `BloomPolicy::key_may_match` (filter.rs): a key that is among the keys a filter was
    created from (by a policy of any bits-per-key) is never rejected by the translated reader. -/
theorem C09_bloom_of_the_translated_reader (bw : Nat) (keys : List Bytes) (key : Bytes)
    (hfit : Bloom.FitsBits bw keys) (hmem : key ∈ keys) (fuel : Nat) (hf : key.length < fuel) (hk : 256 ≤ fuel)
    (hlen : key.length * 3332679571 < 2 ^ 64) (hfl : ((Bloom.policy bw).createFilter keys).length < 2 ^ 61) :
    Gen.bloom_key_may_match fuel key ((Bloom.policy bw).createFilter keys) = .ok true := by
  rw [Gen_bloom_key_may_match_tie key _ fuel hf hk hlen hfl]
  have := C09_bloom bw 0 keys key hfit hmem
  simp only [Bloom.policy] at this
  simp only [Bloom.policy]
  rw [this]

/-- C09 for the translated WRITER and READER together (no model function in the statement): the filter the translated
    `BloomPolicy::create_filter` builds from the concatenated keys and their offsets is produced without panic, and
    the translated `key_may_match` accepts every key it was built from. -/
theorem C09_bloom_of_the_translated_writer_and_reader (bpk : Nat) (ks : List Bytes) (key : Bytes) (fuel : Nat)
    (hmem : key ∈ ks) (hf : ∀ k ∈ ks, k.length < fuel) (hf2 : ks.length < fuel) (hk : 256 ≤ fuel)
    (hlen : ∀ k ∈ ks, k.length * 3332679571 < 2 ^ 64)
    (hfit : Bloom.FitsBits bpk ks)
    (hbits : ((if ks.length * bpk < 64 then 8 else (ks.length * bpk + 7) / 8) * 8) < 2 ^ 64)
    (hfl : (Bloom.createFilter bpk ks).length < 2 ^ 61) :
    ∃ f, Gen.bloom_create_filter fuel bpk (Bloom.kOf bpk) ks.flatten (offsetsOf ks 0) = .ok f ∧
         Gen.bloom_key_may_match fuel key f = .ok true := by
  refine ⟨Bloom.createFilter bpk ks, Gen_bloom_create_filter_tie' bpk ks fuel hf hf2 (by omega) hlen hbits, ?_⟩
  have := C09_bloom_of_the_translated_reader bpk ks key hfit hmem fuel (hf key hmem) hk (hlen key hmem)
    (by simpa [Bloom.policy] using hfl)
  simpa [Bloom.policy] using this

#print axioms C09_bloom_of_the_translated_reader
#print axioms C09_bloom_of_the_translated_writer_and_reader

end Sst
