import SstModel.Generated.Funcs
import SstModel.Model.Filter
import SstModel.Model.Cmp
/- Function-level tie: types.rs `mask_crc` / `unmask_crc` (translated by tools/gen_funcs.py) equal the model. -/
namespace Sst.FuncsTie.Crc

/-- a high part that is a multiple of `2^i` and a low part below `2^i` have disjoint bits -/
private theorem lor_eq_add_of_mul (hi lo i : Nat) (h : lo < 2 ^ i) :
    Nat.lor lo (hi * 2 ^ i) = lo + hi * 2 ^ i := by
  have := Nat.shiftLeft_add_eq_or_of_lt h hi
  rw [Nat.shiftLeft_eq] at this
  show lo ||| hi * 2 ^ i = _
  rw [Nat.or_comm, ← this, Nat.add_comm]

end Sst.FuncsTie.Crc

namespace Sst
open Sst.FuncsTie.Crc

theorem Gen_mask_crc_tie (c : Nat) (hc : c < 2^32) : Gen.mask_crc c = .ok (maskCrc c) := by
  have hlo : c / 2 ^ 15 < 2 ^ 17 := by omega
  have hhi : c * 2 ^ 17 % 2 ^ 32 = (c % 2 ^ 15) * 2 ^ 17 := by omega
  unfold Gen.mask_crc maskCrc Rt.wrappingAdd Rt.wrappingShr Rt.wrappingShl Consts.maskShr
    Consts.maskShl Consts.maskDelta
  show Res.ok _ = _
  rw [show (15 % 32 : Nat) = 15 from rfl, show (17 % 32 : Nat) = 17 from rfl, hhi,
    lor_eq_add_of_mul _ _ _ hlo]
  apply congrArg Res.ok
  omega

/-- `unmask_crc` agrees with the model for every `mc` (both reduce `mc - delta` modulo `2^32` first) -/
theorem Gen_unmask_crc_tie_all (mc : Nat) : Gen.unmask_crc mc = .ok (unmaskCrc mc) := by
  unfold Gen.unmask_crc unmaskCrc Rt.wrappingSub Rt.wrappingShr Rt.wrappingShl
    Consts.unmaskShr Consts.unmaskShl Consts.maskDelta
  show Res.ok _ = _
  dsimp only
  rw [show (15 % 32 : Nat) = 15 from rfl, show (17 % 32 : Nat) = 17 from rfl,
    show (2726488792 % 4294967296 : Nat) = 2726488792 from rfl,
    show (2 ^ 32 : Nat) = 4294967296 from rfl]
  have hrot : (mc + 4294967296 - 2726488792) % 4294967296 < 4294967296 := Nat.mod_lt _ (by decide)
  generalize (mc + 4294967296 - 2726488792) % 4294967296 = rot at hrot
  have hlo : rot / 2 ^ 17 < 2 ^ 15 := by omega
  have hhi : rot * 2 ^ 15 % 4294967296 = (rot % 2 ^ 17) * 2 ^ 15 := by omega
  rw [hhi, lor_eq_add_of_mul _ _ _ hlo]
  apply congrArg Res.ok
  omega

theorem Gen_unmask_crc_tie (mc : Nat) (_h : mc < 2^32) : Gen.unmask_crc mc = .ok (unmaskCrc mc) :=
  Gen_unmask_crc_tie_all mc

/-- the hypothesis `c < 2^32` (the Rust type `u32`) of `Gen_mask_crc_tie` is needed: outside the type the
    `|` of the generated code and the `+` of the model differ -/
theorem Gen_mask_crc_differs_outside_u32 : Gen.mask_crc (2^32 + 1) ≠ .ok (maskCrc (2^32 + 1)) := by
  intro h
  have h' : (Nat.lor ((2^32 + 1) / 2^15) ((2^32 + 1) * 2^17 % 2^32) + 2726488792) % 4294967296
      = maskCrc (2^32 + 1) := Res.ok.inj h
  revert h'
  decide

end Sst

#print axioms Sst.Gen_mask_crc_tie
#print axioms Sst.Gen_unmask_crc_tie
#print axioms Sst.Gen_unmask_crc_tie_all
#print axioms Sst.Gen_mask_crc_differs_outside_u32
