import SstModel.Generated.Funcs
import SstModel.Model.Codec
import SstModel.Lemmas.Codec
/-
  Function-level tie for the decoders of the file's fixed metadata: the regenerated translations of
  `BlockHandle::try_decode` (blockhandle.rs) and `Footer::try_decode` (table_builder.rs) equal the model functions
  for EVERY byte string (no panic, same verdict, same value).  `usize::decode_var` is the model's `decodeVarint`
  (compared with integer-encoding by stream S2).
-/
namespace Sst
open Sst.Rt

private theorem sliceChk_tail' (b : Bytes) (lo : Nat) (s : String) (h : lo ≤ b.length) :
    sliceChk b lo b.length s = .ok (b.drop lo) := by
  unfold sliceChk slice?
  have : List.take (b.length - lo) (List.drop lo b) = List.drop lo b :=
    List.take_of_length_le (by simp)
  simp [h, this]

theorem Gen_bh_try_decode_tie (from_ : Bytes) :
    Gen.bh_try_decode from_ = .ok (BlockHandle.tryDecode from_) := by
  unfold Gen.bh_try_decode BlockHandle.tryDecode
  cases h1 : decodeVarint from_ with
  | none => simp
  | some p =>
    obtain ⟨off, n1⟩ := p
    have hl := (decodeVarint_some_len from_ off n1 h1).2.2.1
    simp only [sliceChk_tail' from_ n1 _ hl, bind, Res.bind]
    cases h2 : decodeVarint (from_.drop n1) with
    | none => simp
    | some q =>
      obtain ⟨sz, n2⟩ := q
      simp

theorem Gen_footer_try_decode_tie (from_ : Bytes) :
    Gen.footer_try_decode from_ = .ok (Footer.tryDecode from_) := by
  unfold Gen.footer_try_decode Footer.tryDecode
  have hfull : Consts.fullFooterLength = 48 := rfl
  have hfoot : Consts.footerLength = 40 := rfl
  have hmagic : Consts.magicFooterEncoded
      = [byteLit 87, byteLit 251, byteLit 128, byteLit 139, byteLit 36, byteLit 117, byteLit 71, byteLit 219] := by
    decide
  by_cases hlen : from_.length < 48
  · simp [hlen, hfull]
  · have h48 : 48 ≤ from_.length := by omega
    have hs : sliceChk from_ 40 (40 + 8) "try_decode: slice #1" = .ok ((from_.drop 40).take 8) := by
      unfold sliceChk slice?
      have : (40 ≤ 40 + 8 ∧ 40 + 8 ≤ from_.length) := by omega
      simp [this]
    have hs' : ∀ s, sliceChk from_ 40 (40 + 8) s = .ok ((from_.drop 40).take 8) := by
      intro s
      unfold sliceChk slice?
      have : (40 ≤ 40 + 8 ∧ 40 + 8 ≤ from_.length) := by omega
      simp [this]
    simp only [show ¬ from_.length < 40 + 8 from by omega, decide_false, Bool.false_eq_true, if_false, hs', hfull, hfoot,
      bind, Res.bind, Res.pure_eq, show (48 - 40 : Nat) = 8 from rfl, hmagic]
    by_cases hm : (from_.drop 40).take 8
        = [byteLit 87, byteLit 251, byteLit 128, byteLit 139, byteLit 36, byteLit 117, byteLit 71, byteLit 219]
    · simp only [hm, bne_self_eq_false, Bool.false_eq_true, if_false, ne_eq, not_true_eq_false]
      have h0 : ∀ s, sliceChk from_ 0 from_.length s = .ok from_ := by
        intro s; rw [sliceChk_tail' from_ 0 s (Nat.zero_le _)]; simp
      simp only [h0, Gen_bh_try_decode_tie]
      cases h1 : BlockHandle.tryDecode from_ with
      | none => simp
      | some p =>
        obtain ⟨m, n⟩ := p
        have hn : n ≤ from_.length := by
          unfold BlockHandle.tryDecode at h1
          cases ha : decodeVarint from_ with
          | none => simp [ha] at h1
          | some a =>
            obtain ⟨o1, l1⟩ := a
            simp only [ha] at h1
            cases hb : decodeVarint (from_.drop l1) with
            | none => simp [hb] at h1
            | some b =>
              obtain ⟨o2, l2⟩ := b
              simp only [hb, Option.some.injEq, Prod.mk.injEq] at h1
              have e1 := (decodeVarint_some_len from_ o1 l1 ha).2.2.1
              have e2 := (decodeVarint_some_len _ o2 l2 hb).2.2.1
              simp only [List.length_drop] at e2
              omega
        simp only [sliceChk_tail' from_ n _ hn]
        cases h2 : BlockHandle.tryDecode (from_.drop n) with
        | none => simp
        | some q => obtain ⟨ix, k⟩ := q; simp
    · have hne : ((from_.drop 40).take 8 != [byteLit 87, byteLit 251, byteLit 128, byteLit 139, byteLit 36, byteLit 117, byteLit 71, byteLit 219]) = true := by
        simp [bne, hm]
      simp [hne, hm]

#print axioms Gen_bh_try_decode_tie
#print axioms Gen_footer_try_decode_tie

end Sst
