import SstModel.Generated.Funcs
import SstModel.Model.Codec
/-
  `Table::block_cache_handle` (table_reader.rs), translated on every run: the 16-byte cache key of a block is the
  little-endian cache id followed by the little-endian block offset, and DISTINCT (id, offset) pairs get DISTINCT
  keys.  The table model keys its cache by the pair itself; this is the fact that makes that abstraction sound
  ("blocks of one table are never served to another", C10), proved about the translated code.
-/
namespace Sst
open Sst.Rt

theorem encodeFixed32_length (n : Nat) : (encodeFixed32 n).length = 4 := rfl
theorem encodeFixed64_length (n : Nat) : (encodeFixed64 n).length = 8 := by
  simp [encodeFixed64, encodeFixed32_length]

private theorem ofNat_inj {a b : Nat} (ha : a < 256) (hb : b < 256) (h : UInt8.ofNat a = UInt8.ofNat b) : a = b := by
  have := congrArg UInt8.toNat h
  simp [UInt8.toNat_ofNat'] at this
  omega

theorem encodeFixed32_inj {a b : Nat} (ha : a < 2 ^ 32) (hb : b < 2 ^ 32) (h : encodeFixed32 a = encodeFixed32 b) : a = b := by
  unfold encodeFixed32 at h
  simp only [List.cons.injEq, and_true] at h
  obtain ⟨h0, h1, h2, h3⟩ := h
  have e0 := ofNat_inj (Nat.mod_lt _ (by decide)) (Nat.mod_lt _ (by decide)) h0
  have e1 := ofNat_inj (Nat.mod_lt _ (by decide)) (Nat.mod_lt _ (by decide)) h1
  have e2 := ofNat_inj (Nat.mod_lt _ (by decide)) (Nat.mod_lt _ (by decide)) h2
  have e3 := ofNat_inj (Nat.mod_lt _ (by decide)) (Nat.mod_lt _ (by decide)) h3
  omega

theorem encodeFixed64_inj {a b : Nat} (ha : a < 2 ^ 64) (hb : b < 2 ^ 64) (h : encodeFixed64 a = encodeFixed64 b) : a = b := by
  unfold encodeFixed64 at h
  have hl : (encodeFixed32 (a % 4294967296)).length = (encodeFixed32 (b % 4294967296)).length := by
    simp [encodeFixed32_length]
  obtain ⟨h1, h2⟩ := List.append_inj h hl
  have e1 := encodeFixed32_inj (Nat.mod_lt _ (by decide)) (Nat.mod_lt _ (by decide)) h1
  have e2 := encodeFixed32_inj (a := a / 4294967296) (b := b / 4294967296) (by omega) (by omega) h2
  omega

/-- the translated `block_cache_handle` never panics and yields id ++ offset, both as 8 little-endian bytes -/
theorem Gen_cache_key_eq (id off : Nat) :
    Gen.table_block_cache_handle id off = .ok (encodeFixed64 id ++ encodeFixed64 off) := by
  unfold Gen.table_block_cache_handle
  simp only [writeAt, encodeFixed64_length, List.length_replicate, bind, Res.bind, Res.pure_eq]
  have h1 : (0 ≤ 8 ∧ 8 ≤ 2 * 8 ∧ 8 ≤ 8 - 0) := by omega
  simp only [h1, and_self, if_true, List.take_zero, List.nil_append, Nat.zero_add]
  have hl : (encodeFixed64 id ++ List.drop 8 (List.replicate (2 * 8) (byteLit 0))).length = 16 := by
    simp [encodeFixed64_length]
  have h2 : (8 ≤ (encodeFixed64 id ++ List.drop 8 (List.replicate (2 * 8) (byteLit 0))).length ∧
      (encodeFixed64 id ++ List.drop 8 (List.replicate (2 * 8) (byteLit 0))).length
        ≤ (encodeFixed64 id ++ List.drop 8 (List.replicate (2 * 8) (byteLit 0))).length ∧
      8 ≤ (encodeFixed64 id ++ List.drop 8 (List.replicate (2 * 8) (byteLit 0))).length - 8) := by
    rw [hl]; omega
  simp only [h2, and_self, if_true]
  have ht : List.take 8 (encodeFixed64 id ++ List.drop 8 (List.replicate (2 * 8) (byteLit 0))) = encodeFixed64 id := by
    rw [List.take_append_of_le_length (by simp [encodeFixed64_length])]
    exact List.take_of_length_le (by simp [encodeFixed64_length])
  have hd : List.drop (8 + 8) (encodeFixed64 id ++ List.drop 8 (List.replicate (2 * 8) (byteLit 0))) = [] := by
    apply List.drop_eq_nil_of_le
    rw [hl]; omega
  rw [ht, hd]
  simp

/-- distinct (cache id, block offset) pairs have distinct cache keys: no block of one table can be served to
    another table, or for another offset, through the byte-level key -/
theorem Gen_cache_key_injective (id off id' off' : Nat) (h1 : id < 2 ^ 64) (h2 : off < 2 ^ 64) (h3 : id' < 2 ^ 64)
    (h4 : off' < 2 ^ 64)
    (h : Gen.table_block_cache_handle id off = Gen.table_block_cache_handle id' off') : id = id' ∧ off = off' := by
  rw [Gen_cache_key_eq, Gen_cache_key_eq] at h
  injection h with h
  have hl : (encodeFixed64 id).length = (encodeFixed64 id').length := by simp [encodeFixed64_length]
  obtain ⟨a, b⟩ := List.append_inj h hl
  exact ⟨encodeFixed64_inj h1 h3 a, encodeFixed64_inj h2 h4 b⟩

#print axioms Gen_cache_key_eq
#print axioms Gen_cache_key_injective

end Sst
