import SstModel.Model.Basic
/-
  Equality of outcomes up to the TEXT of a panic site: the translated code (Generated/Funcs.lean) and the
  hand-written model name their panic sites differently; everything else must coincide.
-/
namespace Sst

def Res.same {α} : Res α → Res α → Prop
  | .ok a, .ok b => a = b
  | .err c, .err d => c = d
  | .panic _, .panic _ => True
  | .diverge, .diverge => True
  | _, _ => False

theorem Res.same_ok {α} {r : Res α} {a : α} (h : Res.same r (.ok a)) : r = .ok a := by
  cases r <;> simp_all [Res.same]

theorem Res.same_refl {α} (r : Res α) : Res.same r r := by
  cases r <;> simp [Res.same]

theorem Res.same_cases {α} {r m : Res α} (h : Res.same r m) :
    (∃ a, r = .ok a ∧ m = .ok a) ∨ (∃ s s', r = .panic s ∧ m = .panic s') ∨
    (∃ c, r = .err c ∧ m = .err c) ∨ (r = .diverge ∧ m = .diverge) := by
  cases r <;> cases m <;> simp_all [Res.same]

end Sst
