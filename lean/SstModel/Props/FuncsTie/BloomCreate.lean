import SstModel.Generated.Funcs
import SstModel.Model.Filter
import SstModel.Props.FuncsTie.BloomFn
import SstModel.Props.FuncsTie.BlockIterBasic
import SstModel.Lemmas.Bloom
import SstModel.Lemmas.BloomProbes
/-
  Tie theorem for the generated translation of filter.rs::BloomPolicy::create_filter
  (`Sst.Gen.bloom_create_filter`): given the keys CONCATENATED plus the start offset of each key
  (`offsetsOf ks 0`), it computes exactly the hand-written model function `Sst.Bloom.createFilter bpk ks`
  (which takes the keys already split).

  Differences between the two sides that the proof bridges:
  * the Rust pushes the probe-count byte `k` BEFORE the key loop and sets the probe bits in the vector
    that already carries this trailing byte; the model appends the byte after the fold.  All bit
    positions are `< nbytes * 8`, so the trailing byte is never touched (`addProbes_append`,
    `foldl_addKey_append`);
  * the Rust recovers each key by slicing `data[offsets[i] .. (offsets[i+1] or data.len())]`
    (`offset_data_iterate`, inlined by the translator); `slice_key` shows that this is `ks[i]`;
  * `filter[bitpos / 8] |= 1 << (bitpos % 8)` is `Bloom.setBit`.

  Proof shape (as in BloomFn.lean): each loop of the generated code is abstracted to "any body that
  satisfies this one-step specification"; the loop lemma is proved by induction; the main theorem unfolds
  the generated definition once, rewrites the loops with the loop lemmas (bodies found by unification) and
  discharges the one-step specifications by `simp only` over the `Rt` vocabulary.
-/
namespace Sst

/-- start offset of each key in the concatenation (what `FilterBlockBuilder::add_key` records) -/
def offsetsOf : List Bytes → Nat → List Nat
  | [], _ => []
  | k :: ks, o => o :: offsetsOf ks (o + k.length)

namespace FuncsTie.BloomCreate
open Sst Sst.Rt Sst.Bloom Sst.FuncsTie.BlockIterBasic

/-! ### generic: one unfolding of `loopFuel` -/

private theorem loop_cont {σ ρ : Type} (body : σ → Res (LStep σ ρ)) (n : Nat) (s s' : σ)
    (h : body s = .ok (.cont s')) : loopFuel body (n + 1) s = loopFuel body n s' := by
  simp [loopFuel, h]

private theorem loop_brk {σ ρ : Type} (body : σ → Res (LStep σ ρ)) (n : Nat) (s s' : σ)
    (h : body s = .ok (.brk s')) : loopFuel body (n + 1) s = .ok (.done s') := by
  simp [loopFuel, h]

/-! ### offsets and slicing -/

/-- offset of the `i`-th key in the concatenation -/
def offAt (ks : List Bytes) (i : Nat) : Nat := (ks.take i).flatten.length

theorem offsetsOf_length : ∀ (ks : List Bytes) (o : Nat), (offsetsOf ks o).length = ks.length
  | [], _ => rfl
  | k :: ks, o => by simp [offsetsOf, offsetsOf_length ks]

theorem offsetsOf_getElem? : ∀ (ks : List Bytes) (o i : Nat), i < ks.length →
    (offsetsOf ks o)[i]? = some (o + offAt ks i)
  | [], _, _, h => by simp at h
  | k :: ks, o, 0, _ => by simp [offsetsOf, offAt]
  | k :: ks, o, i + 1, h => by
    have := offsetsOf_getElem? ks (o + k.length) i (by simpa using h)
    simp [offsetsOf, offAt, this, Nat.add_assoc]

theorem split_at (ks : List Bytes) (i : Nat) (hi : i < ks.length) :
    ks.flatten = (ks.take i).flatten ++ ks[i] ++ (ks.drop (i + 1)).flatten := by
  have e : ks = ks.take i ++ ks[i] :: ks.drop (i + 1) := by
    rw [← List.drop_eq_getElem_cons hi, List.take_append_drop]
  calc ks.flatten = (ks.take i ++ ks[i] :: ks.drop (i + 1)).flatten := congrArg List.flatten e
    _ = _ := by rw [List.flatten_append, List.flatten_cons, List.append_assoc]

theorem offAt_succ (ks : List Bytes) (i : Nat) (hi : i < ks.length) :
    offAt ks (i + 1) = offAt ks i + ks[i].length := by
  unfold offAt
  rw [List.take_succ_eq_append_getElem hi, List.flatten_append, List.length_append, List.flatten_cons,
    List.flatten_nil, List.append_nil]

theorem offAt_last (ks : List Bytes) (i : Nat) (hl : ks.length ≤ i + 1) :
    ks.flatten.length = offAt ks (i + 1) := by
  unfold offAt
  rw [List.take_of_length_le (by omega)]

theorem slice_key (ks : List Bytes) (i : Nat) (hi : i < ks.length) :
    slice? ks.flatten (offAt ks i) (offAt ks (i + 1)) = some ks[i] := by
  rw [offAt_succ ks i hi]
  conv => lhs; arg 1; rw [split_at ks i hi]
  exact slice?_mid _ _ _ _ _ rfl rfl

/-! ### the trailing byte is not touched -/

theorem setBit_append (f t : Bytes) (p : Nat) (hp : p / 8 < f.length) :
    setBit (f ++ t) p = setBit f p ++ t := by
  unfold setBit
  rw [List.set_append_left _ _ hp]
  simp [List.getD_eq_getElem?_getD, List.getElem?_append_left hp]

theorem addProbes_append (bits d : Nat) (t : Bytes) (hb : 0 < bits) : ∀ (k h : Nat) (f : Bytes),
    bits ≤ f.length * 8 → addProbes bits d k h (f ++ t) = addProbes bits d k h f ++ t := by
  intro k
  induction k with
  | zero => intro h f _; rfl
  | succ k ih =>
    intro h f hf
    have := Nat.mod_lt h hb
    simp only [addProbes]
    rw [setBit_append f t _ (by omega), ih _ _ (by rw [setBit_length]; exact hf)]

theorem foldl_addKey_append (bits k : Nat) (t : Bytes) (hb : 0 < bits) : ∀ (keys : List Bytes) (f : Bytes),
    bits ≤ f.length * 8 →
    keys.foldl (addKey bits k) (f ++ t) = keys.foldl (addKey bits k) f ++ t := by
  intro keys
  induction keys with
  | nil => intro f _; rfl
  | cons key keys ih =>
    intro f hf
    simp only [List.foldl_cons]
    have e : addKey bits k (f ++ t) key = addKey bits k f key ++ t := by
      unfold addKey
      exact addProbes_append bits _ t hb k _ f hf
    rw [e, ih _ (by rw [addKey_length]; exact hf)]

/-! ### the probe loop -/

/-- the hash value the probe loop ends with -/
private def probeH (d : Nat) : Nat → Nat → Nat
  | 0, h => h
  | n + 1, h => probeH d n (u32 (h + d))

private theorem u32_lt (n : Nat) : u32 n < 2 ^ 32 := by
  unfold u32; omega

private theorem probeLoop (bits d k : Nat)
    (body : Nat × Bytes × Nat → Res (LStep (Nat × Bytes × Nat) Bytes))
    (hstep : ∀ i g h, h < 2 ^ 32 → i < k → bits ≤ g.length * 8 →
      body (i, g, h) = .ok (.cont (i + 1, setBit g (h % bits), u32 (h + d))))
    (hbrk : ∀ i g h, ¬ i < k → body (i, g, h) = .ok (.brk (i, g, h))) :
    ∀ (n i : Nat) (g : Bytes) (h fuel : Nat), i + n = k → n < fuel → h < 2 ^ 32 → bits ≤ g.length * 8 →
      loopFuel body fuel (i, g, h) = .ok (.done (k, addProbes bits d n h g, probeH d n h)) := by
  intro n
  induction n with
  | zero =>
    intro i g h fuel hi hf hh hg
    match fuel, hf with
    | fuel + 1, _ =>
      rw [loop_brk body fuel _ _ (hbrk i g h (by omega))]
      have : i = k := by omega
      subst this; rfl
  | succ n ih =>
    intro i g h fuel hi hf hh hg
    match fuel, hf with
    | fuel + 1, hf =>
      rw [loop_cont body fuel _ _ (hstep i g h hh (by omega) hg),
        ih (i + 1) _ (u32 (h + d)) fuel (by omega) (by omega) (u32_lt _) (by rw [setBit_length]; exact hg)]
      rfl

private theorem probeLoop0 (bits d k : Nat)
    (body : Nat × Bytes × Nat → Res (LStep (Nat × Bytes × Nat) Bytes))
    (hstep : ∀ i g h, h < 2 ^ 32 → i < k → bits ≤ g.length * 8 →
      body (i, g, h) = .ok (.cont (i + 1, setBit g (h % bits), u32 (h + d))))
    (hbrk : ∀ i g h, ¬ i < k → body (i, g, h) = .ok (.brk (i, g, h)))
    (g : Bytes) (h fuel : Nat) (hf : k < fuel) (hh : h < 2 ^ 32) (hg : bits ≤ g.length * 8) :
    loopFuel body fuel (0, g, h) = .ok (.done (k, addProbes bits d k h g, probeH d k h)) :=
  probeLoop bits d k body hstep hbrk k 0 g h fuel (by omega) hf hh hg

/-! ### the loop over the keys -/

private theorem keyLoop (ks : List Bytes) (F : Bytes → Bytes → Bytes) (L : Nat)
    (body : Nat × Bytes → Res (LStep (Nat × Bytes) Bytes))
    (hF : ∀ g key, (F g key).length = g.length)
    (hstep : ∀ i g (hi : i < ks.length), g.length = L → body (i, g) = .ok (.cont (i + 1, F g ks[i])))
    (hbrk : ∀ i g, ¬ i < ks.length → body (i, g) = .ok (.brk (i, g))) :
    ∀ (rest pre : List Bytes) (g : Bytes) (fuel : Nat), ks = pre ++ rest → rest.length < fuel → g.length = L →
      loopFuel body fuel (pre.length, g) = .ok (.done (ks.length, rest.foldl F g)) := by
  intro rest
  induction rest with
  | nil =>
    intro pre g fuel hd hf hg
    match fuel, hf with
    | fuel + 1, _ =>
      have hl : ks.length = pre.length := by rw [hd]; simp
      rw [loop_brk body fuel _ _ (hbrk pre.length g (by omega)), hl]
      rfl
  | cons key rest ih =>
    intro pre g fuel hd hf hg
    match fuel, hf with
    | fuel + 1, hf =>
      have hl : ks.length = pre.length + (rest.length + 1) := by rw [hd]; simp
      have hi : pre.length < ks.length := by omega
      have hk : ks[pre.length] = key := by
        have : ks[pre.length]? = some key := by rw [hd]; simp
        exact (List.getElem?_eq_some_iff.mp this).2
      rw [loop_cont body fuel _ _ (hstep pre.length g hi hg), hk]
      have := ih (pre ++ [key]) (F g key) fuel (by rw [hd]; simp) (by simp at hf; omega)
        (by rw [hF]; exact hg)
      simpa using this

private theorem keyLoop0 (ks : List Bytes) (F : Bytes → Bytes → Bytes) (L : Nat)
    (body : Nat × Bytes → Res (LStep (Nat × Bytes) Bytes))
    (hF : ∀ g key, (F g key).length = g.length)
    (hstep : ∀ i g (hi : i < ks.length), g.length = L → body (i, g) = .ok (.cont (i + 1, F g ks[i])))
    (hbrk : ∀ i g, ¬ i < ks.length → body (i, g) = .ok (.brk (i, g)))
    (g : Bytes) (fuel : Nat) (hf : ks.length < fuel) (hg : g.length = L) :
    loopFuel body fuel (0, g) = .ok (.done (ks.length, ks.foldl F g)) :=
  keyLoop ks F L body hF hstep hbrk ks [] g fuel rfl hf hg

end FuncsTie.BloomCreate
end Sst

namespace Sst
open Sst.Rt Sst.Bloom Sst.FuncsTie.BlockIterBasic Sst.FuncsTie.BloomCreate

private theorem two_pow_mod8 (x : Nat) : 2 ^ (x % 8) % 2 ^ 8 = 2 ^ (x % 8) :=
  Nat.mod_eq_of_lt (Nat.pow_lt_pow_right (by decide) (Nat.mod_lt _ (by decide)))

theorem Gen_bloom_create_filter_tie' (bpk : Nat) (ks : List Bytes) (fuel : Nat)
    (hf : ∀ k ∈ ks, k.length < fuel) (hf2 : ks.length < fuel) (hf3 : 30 < fuel)
    (hlen : ∀ k ∈ ks, k.length * 3332679571 < 2^64)
    (hbits : ((if ks.length * bpk < 64 then 8 else (ks.length * bpk + 7) / 8) * 8) < 2^64) :
    Gen.bloom_create_filter fuel bpk (Bloom.kOf bpk) ks.flatten (offsetsOf ks 0)
      = .ok (Bloom.createFilter bpk ks) := by
  have hk30 := kOf_le bpk
  have hk1 := kOf_ge bpk
  have hnbo : nbytesOf bpk ks = (if ks.length * bpk < 64 then 8 else (ks.length * bpk + 7) / 8) := rfl
  generalize hnb : (if ks.length * bpk < 64 then 8 else (ks.length * bpk + 7) / 8) = nb at hbits hnbo
  have hnb8 : 8 ≤ nb := by rw [← hnb]; split <;> omega
  have hbits' : nb * 8 < 18446744073709551616 := hbits
  have hkb : Rt.byteLit (kOf bpk % 256) = UInt8.ofNat (kOf bpk) := by
    rw [Nat.mod_eq_of_lt (by omega)]; rfl
  unfold Gen.bloom_create_filter
  extract_lets -underBinder +onlyGivenNames fb f0 join1
  have hJ : join1 (List.replicate nb 0) = .ok (Bloom.createFilter bpk ks) := by
    simp only [join1, List.length_replicate, Rt.mulW, hbits', if_true, bind_ok, hkb]
    rw [keyLoop0 ks (addKey (nb * 8) (kOf bpk)) (nb + 1) _ (fun g key => addKey_length _ _ g key) ?hstep ?hbrk
      _ fuel hf2 (by simp)]
    case hbrk =>
      intro i g hi
      simp only [offsetsOf_length, hi, decide_false, Bool.false_eq_true, if_false, Res.pure_eq]
    case hstep =>
      intro i g hi hg
      have h1 : 1 ≤ ks.length := by omega
      have hmem : ks[i] ∈ ks := List.getElem_mem hi
      have hoff : (offsetsOf ks 0)[i]? = some (offAt ks i) := by
        rw [offsetsOf_getElem? ks 0 i hi, Nat.zero_add]
      have hsl := slice_key ks i hi
      have hH := Gen_bloom_hash_lt ks[i]
      have hd : delta (bloomHash ks[i]) < 2 ^ 32 := by
        unfold delta
        exact Nat.or_lt_two_pow (Nat.lt_of_le_of_lt (Nat.div_le_self _ _) hH) (by unfold u32; omega)
      have hdelta : Nat.lor (bloomHash ks[i] / 2 ^ 17) (bloomHash ks[i] * 2 ^ 15 % 2 ^ 32)
          = delta (bloomHash ks[i]) := by
        simp only [delta, u32, Consts.bloomDeltaShr, Consts.bloomDeltaShl, Nat.reducePow]
      simp only [offsetsOf_length, hi, decide_true, if_true, Rt.subChk, h1, bind_ok, Res.pure_eq]
      have hup : ∀ site, (if (i == ks.length - 1) = true then Res.ok ks.flatten.length
          else Rt.idxN (offsetsOf ks 0) (i + 1) site) = Res.ok (offAt ks (i + 1)) := by
        intro site
        by_cases he : i = ks.length - 1
        · rw [if_pos (by simpa using he), offAt_last ks i (by omega)]
        · rw [if_neg (by simpa using he)]
          simp only [Rt.idxN]
          rw [offsetsOf_getElem? ks 0 (i + 1) (by omega), Nat.zero_add]
      have hht := Gen_bloom_hash_tie ks[i] fuel (hf _ hmem) (hlen _ hmem)
      simp only [hup, bind_ok]
      simp only [Rt.idxN, hoff, bind_ok, Rt.sliceChk, hsl, hht, Rt.wrappingShr, Rt.wrappingShl,
        Nat.reduceMod, hdelta]
      rw [probeLoop0 (nb * 8) (delta (bloomHash ks[i])) (kOf bpk) _ ?hs ?hb g _ fuel (by omega) hH (by omega)]
      case hb =>
        intro j g' h hj
        simp only [hj, decide_false, Bool.false_eq_true, if_false]
      case hs =>
        intro j g' h hh hj hg'
        have hb0 : ¬ (nb * 8 = 0) := by omega
        have h80 : ¬ ((8 : Nat) = 0) := by decide
        have hpos : h % (nb * 8) / 8 < g'.length := by
          have := Nat.mod_lt h (Nat.pos_of_ne_zero hb0)
          omega
        obtain ⟨v, hv⟩ : ∃ v, g'[h % (nb * 8) / 8]? = some v := ⟨_, List.getElem?_eq_getElem hpos⟩
        have h8 : h % (nb * 8) % 8 < 8 := Nat.mod_lt _ (by decide)
        have hadd : h + delta (bloomHash ks[i]) < 18446744073709551616 := by omega
        simp only [hj, decide_true, if_true, Rt.modChk, hb0, if_false, Rt.divChk, h80, bind_ok, Rt.idx, hv,
          Rt.shlChk, h8, Nat.one_mul, two_pow_mod8, Rt.setIdx, hpos, Rt.addW, hadd, setBit,
          List.getD_eq_getElem?_getD, Option.getD_some, u32]
      simp only [bind_ok, addKey]
    simp only [bind_ok, Res.pure_eq]
    rw [foldl_addKey_append (nb * 8) (kOf bpk) _ (by omega) ks _ (by simp)]
    have hfit : FitsBits bpk ks := by
      show nbytesOf bpk ks * 8 < 2 ^ Consts.bloomBitsWidth
      rw [hnbo, two_pow_bitsWidth]; exact hbits'
    rw [createFilter_eq bpk ks hfit, hnbo]
  clear_value join1
  have h80 : ¬ ((8 : Nat) = 0) := by decide
  have hz : UInt8.ofNat 0 = 0 := rfl
  by_cases hc : ks.length * bpk < 64
  · have e : nb = 8 := by rw [← hnb, if_pos hc]
    simp only [fb, f0, offsetsOf_length, hc, decide_true, if_true, Rt.resizeB, List.length_nil, Nat.sub_zero,
      List.nil_append, hz, (by decide : ¬ (8 ≤ 0)), if_false]
    rw [e] at hJ; exact hJ
  · have e : nb = (ks.length * bpk + 7) / 8 := by rw [← hnb, if_neg hc]
    simp only [fb, f0, offsetsOf_length, hc, decide_false, Bool.false_eq_true, if_false, Rt.divChk, h80, bind_ok,
      Res.pure_eq, Rt.resizeB, List.length_nil, Nat.sub_zero, List.nil_append, hz]
    rw [if_neg (by omega)]
    rw [e] at hJ; exact hJ

theorem Gen_bloom_create_filter_tie (bpk : Nat) (ks : List Bytes) (fuel : Nat)
    (hf : ∀ k ∈ ks, k.length < fuel) (hf2 : ks.length < fuel) (hf3 : 30 < fuel)
    (hlen : ∀ k ∈ ks, k.length * 3332679571 < 2^64)
    (hbits : ((if ks.length * bpk < 64 then 8 else (ks.length * bpk + 7) / 8) * 8) < 2^64)
    (_hbpk : bpk < 2^32) :
    Gen.bloom_create_filter fuel bpk (Bloom.kOf bpk) ks.flatten (offsetsOf ks 0)
      = .ok (Bloom.createFilter bpk ks) :=
  Gen_bloom_create_filter_tie' bpk ks fuel hf hf2 hf3 hlen hbits
end Sst

#print axioms Sst.Gen_bloom_create_filter_tie'
#print axioms Sst.Gen_bloom_create_filter_tie
