import SstModel.Generated.Funcs
import SstModel.Model.Block
import SstModel.Props.FuncsTie.Same
import SstModel.Props.FuncsTie.BlockIterBasic
import SstModel.Props.FuncsTie.BlockIterStep
/-
  Function-level tie for block.rs, part 3: the regenerated translations of
  `BlockIter::{seek_to_last, prev}` compute the model functions `BlockIter.seekToLast` / `BlockIter.prev`
  (Model/Block.lean), panics included (up to the text of the panic site), whenever the model's own loop
  fuels suffice (`≠ .diverge`; the project proves separately that they do on validated blocks).

  Method: every model loop (`advanceToEnd`, `prevFindRestart`, `prevScan`) is shown to BE a `Rt.loopFuel`
  of a model step function; a generic lemma (`loop_sameND`) then compares two `loopFuel`s whose bodies
  agree on an invariant, the translated one having at least as much fuel.
-/
set_option linter.unusedSimpArgs false
namespace Sst
open FuncsTie.BlockIterBasic FuncsTie.BlockIterStep

namespace FuncsTie.BlockIterBack

/-! ### "same outcome unless the model runs out of its own fuel" -/

def sameND {α} (r m : Res α) : Prop := m ≠ .diverge → Res.same r m

theorem sameND_of_same {α} {r m : Res α} (h : Res.same r m) : sameND r m := fun _ => h

theorem sameND_diverge {α} (r : Res α) : sameND r .diverge := fun h => absurd rfl h

theorem sameND_congr_right {α} {r m m' : Res α} (e : m = m') (h : sameND r m') : sameND r m := by
  rw [e]; exact h

theorem sameND_bind {α β} {r m : Res α} {f g : α → Res β} (h : sameND r m)
    (hfg : ∀ a, m = .ok a → sameND (f a) (g a)) : sameND (r >>= f) (m >>= g) := by
  intro hnd
  have hm : m ≠ .diverge := by
    intro e; apply hnd; rw [e, Res.bind_diverge]
  refine same_bind (h hm) ?_
  intro a ha
  apply hfg a ha
  intro e; apply hnd; rw [ha, bind_ok]; exact e

/-- the code behind a translated loop, against the code behind the model loop; `φ` maps the model's
    loop result to the tuple of loop variables of the translation -/
theorem sameND_bind_flow {σ σ' ρ β : Type} {φ : σ' → σ} {r : Res (Rt.Flow σ ρ)} {m : Res σ'}
    {k : Rt.Flow σ ρ → Res β} {g : σ' → Res β}
    (h : sameND r (m >>= fun a => .ok (Rt.Flow.done (φ a))))
    (hk : ∀ a, m = .ok a → sameND (k (.done (φ a))) (g a)) : sameND (r >>= k) (m >>= g) := by
  cases m with
  | ok a =>
    rw [bind_ok] at h
    have h1 := Res.same_ok (h (by intro e; cases e))
    rw [h1, bind_ok, bind_ok]
    exact hk a rfl
  | err c =>
    rw [Res.bind_err] at h
    have h1 := h (by intro e; cases e)
    cases r <;> simp only [Res.same] at h1
    subst h1; exact sameND_of_same (Res.same_refl _)
  | panic s =>
    rw [bind_panic] at h
    have h1 := h (by intro e; cases e)
    cases r <;> simp only [Res.same] at h1
    exact sameND_of_same (same_panic _ _)
  | diverge => rw [Res.bind_diverge]; exact sameND_diverge _

theorem bind_eq_ok {α β} {m : Res α} {f : α → Res β} {b : β} (h : (m >>= f) = .ok b) :
    ∃ a, m = .ok a ∧ f a = .ok b := by
  cases m with
  | ok a => exact ⟨a, rfl, h⟩
  | err c => cases h
  | panic s => cases h
  | diverge => cases h

theorem bind_ok_id {α} (m : Res α) : (m >>= fun a => Res.ok a) = m := by
  cases m <;> rfl

/-! ### two `loopFuel`s with bodies that agree on an invariant -/

theorem loop_sameND {σ ρ : Type} (Inv : σ → Prop) (body body' : σ → Res (Rt.LStep σ ρ))
    (hbody : ∀ s, Inv s → Res.same (body s) (body' s))
    (hinv : ∀ s s', Inv s → body' s = .ok (.cont s') → Inv s') :
    ∀ (f g : Nat) (s : σ), Inv s → f ≤ g →
      sameND (Rt.loopFuel body g s) (Rt.loopFuel body' f s) := by
  intro f
  induction f with
  | zero => intro g s _ _; exact sameND_diverge _
  | succ f ih =>
    intro g s hs hfg
    obtain ⟨g', rfl⟩ : ∃ g', g = g' + 1 := ⟨g - 1, by omega⟩
    have hb := hbody s hs
    rw [loopFuel_succ, loopFuel_succ]
    cases hb' : body' s with
    | ok st =>
      rw [hb'] at hb
      rw [Res.same_ok hb]
      cases st with
      | cont s' => exact ih g' s' (hinv s s' hs hb') (by omega)
      | brk s' => exact sameND_of_same (Res.same_refl _)
      | ret r => exact sameND_of_same (Res.same_refl _)
    | err c =>
      rw [hb'] at hb
      cases hbs : body s <;> rw [hbs] at hb <;> simp only [Res.same] at hb
      subst hb; exact sameND_of_same (Res.same_refl _)
    | panic m =>
      rw [hb'] at hb
      cases hbs : body s <;> rw [hbs] at hb <;> simp only [Res.same] at hb
      exact sameND_of_same (same_panic _ _)
    | diverge => exact sameND_diverge _

/-! ### frame facts of the model methods -/

theorem numberRestarts_congr {s t : BlockIter} (h : s.block = t.block) :
    s.numberRestarts = t.numberRestarts := by
  unfold BlockIter.numberRestarts; rw [h]

theorem numberRestarts_lt (s : BlockIter) : s.numberRestarts < 2 ^ 32 := decodeFixed32_lt _

theorem adjustRestartIx_ok : ∀ (f : Nat) (s s' : BlockIter), s.adjustRestartIx f = .ok s' →
    s'.block = s.block ∧ (s'.curRestartIx = s.curRestartIx ∨ s'.curRestartIx < s.numberRestarts) := by
  intro f
  induction f with
  | zero =>
    intro s s' h
    unfold BlockIter.adjustRestartIx at h
    cases h; exact ⟨rfl, Or.inl rfl⟩
  | succ f ih =>
    intro s s' h
    unfold BlockIter.adjustRestartIx at h
    by_cases hlt : s.curRestartIx + 1 < s.numberRestarts
    · rw [if_pos hlt] at h
      cases hrp : s.getRestartPoint (s.curRestartIx + 1) with
      | ok rp =>
        rw [hrp] at h
        dsimp only at h
        by_cases hr : rp < s.curEntryOff
        · rw [if_pos hr] at h
          obtain ⟨h1, h2⟩ := ih _ _ h
          refine ⟨h1, Or.inr ?_⟩
          have hN : ({ s with curRestartIx := s.curRestartIx + 1 } : BlockIter).numberRestarts
              = s.numberRestarts := rfl
          rw [hN] at h2
          dsimp only at h2
          omega
        · rw [if_neg hr] at h
          cases h; exact ⟨rfl, Or.inl rfl⟩
      | err c => rw [hrp] at h; cases h
      | panic m => rw [hrp] at h; cases h
      | diverge => rw [hrp] at h; cases h
    · rw [if_neg hlt] at h
      cases h; exact ⟨rfl, Or.inl rfl⟩

theorem advance_ok {s s' : BlockIter} {b : Bool} (h : s.advance = .ok (s', b)) :
    s'.block = s.block ∧ (s'.curRestartIx ≤ s.curRestartIx ∨ s'.curRestartIx < s.numberRestarts) := by
  unfold BlockIter.advance at h
  by_cases h0 : s.offset ≥ s.restartsOff
  · rw [if_pos h0] at h
    cases h
    exact ⟨rfl, Or.inl (Nat.zero_le _)⟩
  · rw [if_neg h0] at h
    obtain ⟨p, hp, h⟩ := bind_eq_ok h
    obtain ⟨it1, sh, ns, hl⟩ := p
    obtain ⟨hb1, _, hc1, _, _, _⟩ := parseEntryAndAdvance_ok hp
    dsimp only at h hb1 hc1
    obtain ⟨it2, hp2, h⟩ := bind_eq_ok h
    obtain ⟨hb2, _, hc2, _, _, _⟩ := assembleKey_ok hp2
    obtain ⟨it3, hp3, h⟩ := bind_eq_ok h
    obtain ⟨hb3, hc3⟩ := adjustRestartIx_ok _ _ _ hp3
    cases h
    have hB : it2.block = s.block := by rw [hb2, hb1]
    refine ⟨by rw [hb3, hB], ?_⟩
    rw [numberRestarts_congr hB] at hc3
    rw [hc2, hc1] at hc3
    omega

theorem seekToRestartPoint_ok {s s' : BlockIter} {ix : Nat} (h : s.seekToRestartPoint ix = .ok s') :
    s'.block = s.block ∧ s'.curRestartIx = ix := by
  unfold BlockIter.seekToRestartPoint at h
  obtain ⟨off, _, h⟩ := bind_eq_ok h
  obtain ⟨p, hp, h⟩ := bind_eq_ok h
  obtain ⟨it1, sh, ns, hl⟩ := p
  obtain ⟨hb1, _, hc1, _, _, _⟩ := parseEntryAndAdvance_ok hp
  dsimp only at h hb1 hc1
  obtain ⟨_, _, h⟩ := bind_eq_ok h
  obtain ⟨it2, hp2, h⟩ := bind_eq_ok h
  obtain ⟨hb2, _, hc2, _, _, _⟩ := assembleKey_ok hp2
  obtain ⟨_, _, h⟩ := bind_eq_ok h
  cases h
  exact ⟨by rw [hb2, hb1], by rw [hc2, hc1]⟩

theorem prevFindRestart_ok (orig : Nat) : ∀ (f : Nat) (s s' : BlockIter),
    s.prevFindRestart orig f = .ok s' →
    s'.block = s.block ∧ (s'.curRestartIx ≤ s.curRestartIx ∨ s'.curRestartIx = s.numberRestarts) := by
  intro f
  induction f with
  | zero => intro s s' h; unfold BlockIter.prevFindRestart at h; cases h
  | succ f ih =>
    intro s s' h
    unfold BlockIter.prevFindRestart at h
    cases hrp : s.getRestartPoint s.curRestartIx with
    | ok rp =>
      rw [hrp] at h
      dsimp only at h
      by_cases hr : rp ≥ orig
      · rw [if_pos hr] at h
        by_cases hz : s.curRestartIx = 0
        · rw [if_pos hz] at h
          cases h; exact ⟨rfl, Or.inr rfl⟩
        · rw [if_neg hz] at h
          obtain ⟨h1, h2⟩ := ih _ _ h
          have hN : ({ s with curRestartIx := s.curRestartIx - 1 } : BlockIter).numberRestarts
              = s.numberRestarts := rfl
          rw [hN] at h2
          dsimp only at h2
          exact ⟨h1, by omega⟩
      · rw [if_neg hr] at h
        cases h; exact ⟨rfl, Or.inl (Nat.le_refl _)⟩
    | err c => rw [hrp] at h; cases h
    | panic m => rw [hrp] at h; cases h
    | diverge => rw [hrp] at h; cases h

/-! ### the model loops are `loopFuel`s of model steps -/

/-- one iteration of `advanceToEnd` -/
def stepE {ρ : Type} (s : BlockIter) : Res (Rt.LStep BlockIter ρ) :=
  if s.offset < s.restartsOff then s.advance >>= fun p => .ok (.cont p.1) else .ok (.brk s)

theorem advanceToEnd_eq {ρ : Type} : ∀ (f : Nat) (s : BlockIter),
    (s.advanceToEnd f >>= fun s' => Res.ok (Rt.Flow.done s' : Rt.Flow BlockIter ρ)) =
      Rt.loopFuel stepE f s := by
  intro f
  induction f with
  | zero => intro s; rfl
  | succ f ih =>
    intro s
    unfold BlockIter.advanceToEnd
    rw [loopFuel_succ]
    unfold stepE
    by_cases c : s.offset < s.restartsOff
    · rw [if_pos c, if_pos c]
      cases hadv : s.advance with
      | ok p =>
        obtain ⟨s2, b⟩ := p
        simp only [bind_ok]
        exact ih s2
      | err c => rfl
      | panic m => rfl
      | diverge => rfl
    · rw [if_neg c, if_neg c]
      rfl

/-- one iteration of `prevFindRestart` -/
def stepF {ρ : Type} (orig : Nat) (s : BlockIter) : Res (Rt.LStep BlockIter ρ) :=
  s.getRestartPoint s.curRestartIx >>= fun rp =>
    if rp ≥ orig then
      if s.curRestartIx = 0 then
        .ok (.brk { s with offset := s.restartsOff, curRestartIx := s.numberRestarts })
      else .ok (.cont { s with curRestartIx := s.curRestartIx - 1 })
    else .ok (.brk s)

theorem prevFindRestart_eq {ρ : Type} (orig : Nat) : ∀ (f : Nat) (s : BlockIter),
    (s.prevFindRestart orig f >>= fun s' => Res.ok (Rt.Flow.done s' : Rt.Flow BlockIter ρ)) =
      Rt.loopFuel (stepF orig) f s := by
  intro f
  induction f with
  | zero => intro s; rfl
  | succ f ih =>
    intro s
    unfold BlockIter.prevFindRestart
    rw [loopFuel_succ]
    unfold stepF
    cases hrp : s.getRestartPoint s.curRestartIx with
    | ok rp =>
      simp only [bind_ok]
      by_cases hr : rp ≥ orig
      · rw [if_pos hr, if_pos hr]
        by_cases hz : s.curRestartIx = 0
        · rw [if_pos hz, if_pos hz]; rfl
        · rw [if_neg hz, if_neg hz]
          exact ih _
      · rw [if_neg hr, if_neg hr]; rfl
    | err c => rfl
    | panic m => rfl
    | diverge => rfl

/-- one iteration of `prevScan`; the loop variables of the translation are `(result, self)` -/
def stepS {ρ : Type} (orig : Nat) (p : Bool × BlockIter) : Res (Rt.LStep (Bool × BlockIter) ρ) :=
  p.2.advance >>= fun q =>
    if q.1.offset ≥ orig then .ok (.brk (q.2, q.1)) else .ok (.cont (q.2, q.1))

theorem prevScan_eq {ρ : Type} (orig : Nat) : ∀ (f : Nat) (r : Bool) (s : BlockIter),
    (s.prevScan orig f >>= fun q => Res.ok (Rt.Flow.done (q.2, q.1) : Rt.Flow (Bool × BlockIter) ρ)) =
      Rt.loopFuel (stepS orig) f (r, s) := by
  intro f
  induction f with
  | zero => intro r s; rfl
  | succ f ih =>
    intro r s
    unfold BlockIter.prevScan
    rw [loopFuel_succ]
    unfold stepS
    cases hadv : s.advance with
    | ok p =>
      obtain ⟨s2, b⟩ := p
      simp only [bind_ok]
      by_cases hr : s2.offset ≥ orig
      · rw [if_pos hr, if_pos hr]; rfl
      · rw [if_neg hr, if_neg hr]
        exact ih b s2
    | err c => rfl
    | panic m => rfl
    | diverge => rfl

/-! ### invariants of the two `advance` loops -/

/-- what `Gen_bi_advance_tie` needs of every intermediate state -/
def Inv (B : Bytes) (s : BlockIter) : Prop := s.block = B ∧ s.curRestartIx + 1 < 2 ^ 64

theorem Inv_advance {B : Bytes} {s s' : BlockIter} {b : Bool} (hs : Inv B s)
    (h : s.advance = .ok (s', b)) : Inv B s' := by
  obtain ⟨h1, h2⟩ := advance_ok h
  have := numberRestarts_lt s
  exact ⟨by rw [h1]; exact hs.1, by have := hs.2; omega⟩

theorem stepE_inv {ρ : Type} {B : Bytes} (s s' : BlockIter) (hs : Inv B s)
    (h : (stepE s : Res (Rt.LStep BlockIter ρ)) = .ok (.cont s')) : Inv B s' := by
  unfold stepE at h
  by_cases c : s.offset < s.restartsOff
  · rw [if_pos c] at h
    obtain ⟨p, hp, h⟩ := bind_eq_ok h
    obtain ⟨s2, b⟩ := p
    cases h
    exact Inv_advance hs hp
  · rw [if_neg c] at h
    cases h

theorem stepS_inv {ρ : Type} {B : Bytes} (orig : Nat) (p p' : Bool × BlockIter) (hs : Inv B p.2)
    (h : (stepS orig p : Res (Rt.LStep (Bool × BlockIter) ρ)) = .ok (.cont p')) : Inv B p'.2 := by
  unfold stepS at h
  obtain ⟨q, hq, h⟩ := bind_eq_ok h
  obtain ⟨s2, b⟩ := q
  dsimp only at h
  by_cases c : s2.offset ≥ orig
  · rw [if_pos c] at h; cases h
  · rw [if_neg c] at h; cases h
    exact Inv_advance hs hq

theorem stepF_inv {ρ : Type} {B : Bytes} (orig : Nat) (s s' : BlockIter) (hs : s.block = B)
    (h : (stepF orig s : Res (Rt.LStep BlockIter ρ)) = .ok (.cont s')) : s'.block = B := by
  unfold stepF at h
  obtain ⟨rp, _, h⟩ := bind_eq_ok h
  by_cases hr : rp ≥ orig
  · rw [if_pos hr] at h
    by_cases hz : s.curRestartIx = 0
    · rw [if_pos hz] at h; cases h
    · rw [if_neg hz] at h; cases h; exact hs
  · rw [if_neg hr] at h; cases h

end FuncsTie.BlockIterBack

open FuncsTie.BlockIterBack

theorem Gen_bi_seek_to_last_sameND (it : BlockIter) (fuel : Nat) (hlen : it.block.length < 2 ^ 64)
    (h4 : 4 ≤ it.block.length) (hfuel : it.block.length + it.numberRestarts + 2 < fuel) :
    sameND (Gen.bi_seek_to_last fuel it) it.seekToLast := by
  unfold Gen.bi_seek_to_last BlockIter.seekToLast
  by_cases h0 : it.restartsOff = 0
  · have hb : (it.restartsOff == 0) = true := by rw [h0]; rfl
    rw [if_pos hb, if_pos h0, Gen_bi_reset_tie]
    exact sameND_of_same (Res.same_refl _)
  · have hb : ¬ (it.restartsOff == 0) = true := by
      intro h; exact h0 (eq_of_beq h)
    rw [if_neg hb, if_neg h0]
    -- the loop body, the code from the loop on (a join point of the translation), the same in the model
    extract_lets loop2 join1 jp
    have hbody : ∀ s, Inv it.block s → Res.same (loop2 s) (stepE s) := by
      intro s hs
      obtain ⟨hsB, hsc⟩ := hs
      have hadv := Gen_bi_advance_tie s fuel (by rw [hsB]; exact hlen) (by rw [hsB]; exact h4) hsc
        (by rw [numberRestarts_congr hsB]; omega)
      simp only [loop2, stepE]
      by_cases c : s.offset < s.restartsOff
      · simp only [decide_eq_true c, if_true, if_pos c]
        refine same_bind hadv ?_
        intro a _
        obtain ⟨a1, a2⟩ := a
        exact Res.same_refl _
      · simp only [decide_eq_false c, Bool.false_eq_true, if_false, if_neg c, Res.pure_eq]
        exact Res.same_refl _
    have hjoin : ∀ s, Inv it.block s → sameND (join1 s) (jp s) := by
      intro s hs
      simp only [join1, jp]
      refine sameND_bind_flow (φ := fun a => a) ?_ ?_
      · have hl := loop_sameND (Inv it.block) loop2 stepE hbody (fun s s' => stepE_inv s s')
          (s.block.length + 1) fuel s hs (by rw [hs.1]; omega)
        rw [← advanceToEnd_eq] at hl
        exact hl
      · intro a _
        simp only [Gen_bi_valid_tie, bind_ok]
        refine sameND_of_same (same_bind (assert_same _ _ _) ?_)
        intro _ _
        exact Res.same_refl _
    rw [Gen_bi_number_restarts_tie it h4]
    simp only [bind_ok]
    by_cases hn : it.numberRestarts > 0
    · simp only [decide_eq_true hn, if_true, if_pos hn, subChk_ok (show 1 ≤ it.numberRestarts from hn),
        bind_ok]
      refine sameND_bind (sameND_of_same (Gen_bi_seek_to_restart_point_tie it _ hlen)) ?_
      intro it1 h1
      obtain ⟨hB, hc⟩ := seekToRestartPoint_ok h1
      have := numberRestarts_lt it
      exact hjoin it1 ⟨hB, by rw [hc]; omega⟩
    · simp only [decide_eq_false hn, Bool.false_eq_true, if_false, if_neg hn, Gen_bi_reset_tie, bind_ok,
        Res.pure_eq]
      exact hjoin it.reset ⟨rfl, by show 0 + 1 < 2 ^ 64; omega⟩

theorem Gen_bi_seek_to_last_tie (it : BlockIter) (fuel : Nat) (hlen : it.block.length < 2 ^ 64)
    (h4 : 4 ≤ it.block.length) (hfuel : it.block.length + it.numberRestarts + 2 < fuel)
    (hnd : it.seekToLast ≠ .diverge) :
    Res.same (Gen.bi_seek_to_last fuel it) it.seekToLast :=
  Gen_bi_seek_to_last_sameND it fuel hlen h4 hfuel hnd

theorem Gen_bi_prev_sameND (it : BlockIter) (fuel : Nat) (hlen : it.block.length < 2 ^ 64)
    (h4 : 4 ≤ it.block.length) (hix : it.curRestartIx + 1 < 2 ^ 64)
    (hfuel : it.block.length + it.numberRestarts + it.curRestartIx + 4 < fuel) :
    sameND (Gen.bi_prev fuel it) it.prev := by
  unfold Gen.bi_prev BlockIter.prev
  by_cases h0 : it.curEntryOff = 0
  · have hb : (it.curEntryOff == 0) = true := by rw [h0]; rfl
    simp only [hb, if_true, if_pos h0, Gen_bi_reset_tie, bind_ok, Res.pure_eq]
    exact sameND_of_same (Res.same_refl _)
  · have hb : ¬ (it.curEntryOff == 0) = true := by
      intro h; exact h0 (eq_of_beq h)
    simp only [if_neg hb, if_neg h0]
    refine sameND_bind_flow (φ := fun a => a) ?_ ?_
    · -- first loop: walk the restart points back
      rw [prevFindRestart_eq]
      refine loop_sameND (fun s => s.block = it.block) _ _ ?_ (fun s s' => stepF_inv _ s s')
        _ _ _ rfl (by omega)
      intro s hs
      have hl : s.block.length < 2 ^ 64 := by rw [hs]; exact hlen
      try dsimp only
      unfold stepF
      refine same_bind (Gen_bi_get_restart_point_tie s _ hl) ?_
      intro rp _
      by_cases hr : rp ≥ it.curEntryOff
      · simp only [decide_eq_true hr, if_true, if_pos hr]
        by_cases hz : s.curRestartIx = 0
        · have hbz : (s.curRestartIx == 0) = true := by rw [hz]; rfl
          have e := Gen_bi_number_restarts_tie { s with offset := s.restartsOff }
            (by show 4 ≤ s.block.length; rw [hs]; exact h4)
          simp only [hbz, if_true, if_pos hz, e, bind_ok, Res.pure_eq]
          exact Res.same_refl _
        · have hbz : ¬ (s.curRestartIx == 0) = true := by
            intro h; exact hz (eq_of_beq h)
          have h1 : 1 ≤ s.curRestartIx := by omega
          simp only [if_neg hbz, if_neg hz, subChk_ok h1, bind_ok, Res.pure_eq]
          exact Res.same_refl _
      · simp only [decide_eq_false hr, Bool.false_eq_true, if_false, if_neg hr, Res.pure_eq]
        exact Res.same_refl _
    · intro s1 hs1
      obtain ⟨hB, hc⟩ := prevFindRestart_ok _ _ _ _ hs1
      have hl1 : s1.block.length < 2 ^ 64 := by rw [hB]; exact hlen
      have hN := numberRestarts_lt it
      dsimp only
      refine sameND_bind (sameND_of_same (Gen_bi_get_restart_point_tie s1 _ hl1)) ?_
      intro off _
      refine sameND_bind (sameND_of_same (assert_same _ _ _)) ?_
      intro _ _
      refine sameND_congr_right (bind_ok_id _).symm ?_
      refine sameND_bind_flow (φ := fun q => (q.2, q.1)) ?_ ?_
      · -- second loop: advance until the original entry is reached
        rw [prevScan_eq _ _ false]
        refine loop_sameND (fun p => Inv it.block p.2) _ _ ?_ (fun p p' => stepS_inv _ p p')
          _ _ _ ⟨hB, by show s1.curRestartIx + 1 < 2 ^ 64; omega⟩ (by rw [hB]; omega)
        intro p hp
        obtain ⟨hpB, hpc⟩ := hp
        have hadv := Gen_bi_advance_tie p.2 fuel (by rw [hpB]; exact hlen) (by rw [hpB]; exact h4) hpc
          (by rw [numberRestarts_congr hpB]; omega)
        try dsimp only
        unfold stepS
        simp only [if_true]
        refine same_bind hadv ?_
        intro q _
        by_cases c : q.1.offset ≥ it.curEntryOff
        · simp only [decide_eq_true c, if_true, if_pos c, Res.pure_eq]
          exact Res.same_refl _
        · simp only [decide_eq_false c, Bool.false_eq_true, if_false, if_neg c, Res.pure_eq]
          exact Res.same_refl _
      · intro a _
        obtain ⟨a1, a2⟩ := a
        exact sameND_of_same (Res.same_refl _)

theorem Gen_bi_prev_tie (it : BlockIter) (fuel : Nat) (hlen : it.block.length < 2 ^ 64)
    (h4 : 4 ≤ it.block.length) (hix : it.curRestartIx + 1 < 2 ^ 64)
    (hfuel : it.block.length + it.numberRestarts + it.curRestartIx + 4 < fuel)
    (hnd : it.prev ≠ .diverge) :
    Res.same (Gen.bi_prev fuel it) it.prev :=
  Gen_bi_prev_sameND it fuel hlen h4 hix hfuel hnd

#print axioms Gen_bi_seek_to_last_tie
#print axioms Gen_bi_prev_tie

end Sst
