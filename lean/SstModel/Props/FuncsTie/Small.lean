import SstModel.Generated.Funcs
import SstModel.Model.Filter
import SstModel.Model.Cmp
/-
  Tie theorems for the small generated functions: `mask_crc`, `unmask_crc`, `get_filter_index`,
  `find_short_succ`.  Each says that the definition translated from the Rust source computes the
  hand-written model function for every input (under the hypothesis that mirrors the Rust type or
  panic, where there is one).
-/
namespace Sst.FuncsTie.Small

/-- a high part that is a multiple of `2^i` and a low part below `2^i` have disjoint bits -/
private theorem lor_eq_add_of_mul (hi lo i : Nat) (h : lo < 2 ^ i) :
    Nat.lor lo (hi * 2 ^ i) = lo + hi * 2 ^ i := by
  have := Nat.shiftLeft_add_eq_or_of_lt h hi
  rw [Nat.shiftLeft_eq] at this
  show lo ||| hi * 2 ^ i = _
  rw [Nat.or_comm, ← this, Nat.add_comm]

/-- `findShortSucc` of a string of `0xff` bytes appends `0xff` -/
private theorem succ_all_ff (rest : Bytes) (h : ∀ x ∈ rest, x = 255) :
    DefaultCmp.findShortSucc rest = rest ++ [255] := by
  induction rest with
  | nil => rfl
  | cons x xs ih =>
    have hx : x = 255 := h x (by simp)
    subst hx
    rw [DefaultCmp.findShortSucc]
    simp
    exact ih (fun y hy => h y (by simp [hy]))

private theorem succ_ff_prefix (pre rest : Bytes) (h : ∀ x ∈ pre, x = 255) :
    DefaultCmp.findShortSucc (pre ++ rest) = pre ++ DefaultCmp.findShortSucc rest := by
  induction pre with
  | nil => rfl
  | cons x xs ih =>
    have hx : x = 255 := h x (by simp)
    subst hx
    rw [List.cons_append, DefaultCmp.findShortSucc]
    simp
    exact ih (fun y hy => h y (by simp [hy]))

/-- The loop of `find_short_succ`, for any body that behaves on the states `(i, a)` as described by
    `H1` (byte `0xff`: continue), `H2` (other byte: return the bumped prefix), `H3` (end: break). -/
private theorem loop_succ (body : Nat × Bytes → Res (Rt.LStep (Nat × Bytes) Bytes)) (a : Bytes)
    (H1 : ∀ i (h : i < a.length), a[i] = 255 → body (i, a) = .ok (.cont (i + 1, a)))
    (H2 : ∀ i (h : i < a.length), a[i] ≠ 255 →
      body (i, a) = .ok (.ret ((a.set i (a[i] + 1)).take (i + 1))))
    (H3 : body (a.length, a) = .ok (.brk (a.length, a))) :
    ∀ (rest pre : Bytes) (fuel : Nat), a = pre ++ rest → (∀ x ∈ pre, x = 255) → rest.length < fuel →
      Rt.loopFuel body fuel (pre.length, a) =
        if (∀ x ∈ rest, x = 255) then .ok (.done (a.length, a))
        else .ok (.ret (DefaultCmp.findShortSucc a)) := by
  intro rest
  induction rest with
  | nil =>
    intro pre fuel ha _ hf
    obtain ⟨n, rfl⟩ : ∃ n, fuel = n + 1 := ⟨fuel - 1, by simp at hf; omega⟩
    have hl : pre.length = a.length := by rw [ha]; simp
    rw [hl, Rt.loopFuel, H3]
    simp
  | cons x xs ih =>
    intro pre fuel ha hpre hf
    obtain ⟨n, rfl⟩ : ∃ n, fuel = n + 1 := ⟨fuel - 1, by simp at hf; omega⟩
    have hi : pre.length < a.length := by rw [ha]; simp
    have hx : a[pre.length] = x := by simp [ha]
    by_cases hff : x = 255
    · rw [Rt.loopFuel, H1 _ hi (by rw [hx]; exact hff)]
      have := ih (pre ++ [x]) n (by rw [ha]; simp)
        (by intro y hy; simp at hy; rcases hy with hy | hy; exact hpre y hy; rw [hy]; exact hff)
        (by simp at hf; omega)
      simp only [List.length_append, List.length_cons, List.length_nil, Nat.zero_add] at this
      show Rt.loopFuel body n _ = _
      rw [this]
      simp [hff]
    · rw [Rt.loopFuel, H2 _ hi (by rw [hx]; exact hff)]
      show Res.ok (Rt.Flow.ret _) = _
      have hne : ¬ (∀ y ∈ x :: xs, y = 255) := fun h => hff (h x (by simp))
      rw [if_neg hne]
      congr 2
      rw [hx]
      conv => rhs; rw [ha, succ_ff_prefix _ _ hpre, DefaultCmp.findShortSucc]
      subst ha
      simp [hff, List.take_append, List.take_of_length_le]

/-- the loop started at `(0, a)` -/
private theorem loop_succ0 (body : Nat × Bytes → Res (Rt.LStep (Nat × Bytes) Bytes)) (a : Bytes)
    (H1 : ∀ i (h : i < a.length), a[i] = 255 → body (i, a) = .ok (.cont (i + 1, a)))
    (H2 : ∀ i (h : i < a.length), a[i] ≠ 255 →
      body (i, a) = .ok (.ret ((a.set i (a[i] + 1)).take (i + 1))))
    (H3 : body (a.length, a) = .ok (.brk (a.length, a)))
    (fuel : Nat) (hf : a.length < fuel) :
    Rt.loopFuel body fuel (0, a) =
      if (∀ x ∈ a, x = 255) then .ok (.done (a.length, a))
      else .ok (.ret (DefaultCmp.findShortSucc a)) :=
  loop_succ body a H1 H2 H3 a [] fuel rfl (by simp) hf

end Sst.FuncsTie.Small

namespace Sst
open Sst.FuncsTie.Small

theorem Gen_mask_crc_tie (c : Nat) (hc : c < 2^32) : Gen.mask_crc c = .ok (maskCrc c) := by
  have hlo : c / 2 ^ 15 < 2 ^ 17 := by omega
  have hhi : c * 2 ^ 17 % 2 ^ 32 = (c % 2 ^ 15) * 2 ^ 17 := by omega
  unfold Gen.mask_crc maskCrc Rt.wrappingAdd Rt.wrappingShr Rt.wrappingShl Consts.maskShr
    Consts.maskShl Consts.maskDelta
  show Res.ok _ = _
  rw [show (15 % 32 : Nat) = 15 from rfl, show (17 % 32 : Nat) = 17 from rfl, hhi,
    lor_eq_add_of_mul _ _ _ hlo]
  apply congrArg Res.ok
  omega

/-- `unmask_crc` agrees with the model for every `mc` (both reduce `mc - delta` modulo `2^32` first) -/
theorem Gen_unmask_crc_tie_all (mc : Nat) : Gen.unmask_crc mc = .ok (unmaskCrc mc) := by
  unfold Gen.unmask_crc unmaskCrc Rt.wrappingSub Rt.wrappingShr Rt.wrappingShl
    Consts.unmaskShr Consts.unmaskShl Consts.maskDelta
  show Res.ok _ = _
  dsimp only
  rw [show (15 % 32 : Nat) = 15 from rfl, show (17 % 32 : Nat) = 17 from rfl,
    show (2726488792 % 4294967296 : Nat) = 2726488792 from rfl,
    show (2 ^ 32 : Nat) = 4294967296 from rfl]
  have hrot : (mc + 4294967296 - 2726488792) % 4294967296 < 4294967296 := Nat.mod_lt _ (by decide)
  generalize (mc + 4294967296 - 2726488792) % 4294967296 = rot at hrot
  have hlo : rot / 2 ^ 17 < 2 ^ 15 := by omega
  have hhi : rot * 2 ^ 15 % 4294967296 = (rot % 2 ^ 17) * 2 ^ 15 := by omega
  rw [hhi, lor_eq_add_of_mul _ _ _ hlo]
  apply congrArg Res.ok
  omega

theorem Gen_unmask_crc_tie (mc : Nat) (_h : mc < 2^32) : Gen.unmask_crc mc = .ok (unmaskCrc mc) :=
  Gen_unmask_crc_tie_all mc

/-- the hypothesis `c < 2^32` (the Rust type `u32`) of `Gen_mask_crc_tie` is needed: outside the type the
    `|` of the generated code and the `+` of the model differ -/
theorem Gen_mask_crc_differs_outside_u32 : Gen.mask_crc (2^32 + 1) ≠ .ok (maskCrc (2^32 + 1)) := by
  intro h
  have h' : (Nat.lor ((2^32 + 1) / 2^15) ((2^32 + 1) * 2^17 % 2^32) + 2726488792) % 4294967296
      = maskCrc (2^32 + 1) := Res.ok.inj h
  revert h'
  decide

theorem Gen_get_filter_index_tie (off b : Nat) (hb : b < 64) :
    Gen.get_filter_index off b = .ok (FilterBlockBuilder.filterIndex off b) := by
  simp [Gen.get_filter_index, FilterBlockBuilder.filterIndex, Rt.shrChk, hb]

theorem Gen_get_filter_index_panics (off b : Nat) (hb : 64 ≤ b) :
    (Gen.get_filter_index off b).isPanic = true := by
  have : ¬ b < 64 := by omega
  simp [Gen.get_filter_index, Rt.shrChk, this, Res.isPanic]

theorem Gen_find_short_succ_tie (a : Bytes) (fuel : Nat) (hf : a.length < fuel) :
    Gen.find_short_succ fuel a = .ok (DefaultCmp.findShortSucc a) := by
  unfold Gen.find_short_succ
  simp only []
  rw [loop_succ0 _ a ?H1 ?H2 ?H3 fuel hf]
  · by_cases hall : ∀ x ∈ a, x = 255
    · rw [if_pos hall, succ_all_ff a hall]
      rfl
    · rw [if_neg hall]
      rfl
  case H1 =>
    intro i h hi
    simp [Rt.idx, h, hi]
  case H2 =>
    intro i h hi
    have hne : ¬ a[i].toNat = 255 := fun e => hi (UInt8.toNat_inj.mp (by simpa using e))
    have hlt : a[i].toNat + 1 < 256 := by have := UInt8.toNat_lt a[i]; omega
    have hle : i + 1 ≤ a.length := h
    simp [Rt.idx, Rt.setIdx, Rt.addW, Rt.resizeB, h, hne, hlt, hle]
  case H3 =>
    simp
end Sst

#print axioms Sst.Gen_mask_crc_tie
#print axioms Sst.Gen_unmask_crc_tie
#print axioms Sst.Gen_unmask_crc_tie_all
#print axioms Sst.Gen_mask_crc_differs_outside_u32
#print axioms Sst.Gen_get_filter_index_tie
#print axioms Sst.Gen_get_filter_index_panics
#print axioms Sst.Gen_find_short_succ_tie
