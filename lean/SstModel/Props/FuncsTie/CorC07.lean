import SstModel.Props.C07
import SstModel.Props.FuncsTie.Crc
/-
  C07 support for the code AS TRANSLATED from types.rs: the stored checksum is the masked CRC; unmasking what was
  masked gives the CRC back, and masking is injective - so comparing masked values compares the CRCs themselves
  (no two different checksums collide through the mask).
-/
namespace Sst

theorem C07_mask_roundtrip_of_the_translated_code (c : Nat) (h : c < 2 ^ 32) :
    ∃ m, Gen.mask_crc c = .ok m ∧ m < 2 ^ 32 ∧ Gen.unmask_crc m = .ok c := by
  refine ⟨maskCrc c, Gen_mask_crc_tie c h, maskCrc_lt c, ?_⟩
  rw [Gen_unmask_crc_tie_all, C07_mask_roundtrip c h]

theorem C07_mask_injective_of_the_translated_code (a b : Nat) (ha : a < 2 ^ 32) (hb : b < 2 ^ 32)
    (h : Gen.mask_crc a = Gen.mask_crc b) : a = b := by
  rw [Gen_mask_crc_tie a ha, Gen_mask_crc_tie b hb] at h
  exact maskCrc_injective a b ha hb (Res.ok.inj h)

#print axioms C07_mask_roundtrip_of_the_translated_code
#print axioms C07_mask_injective_of_the_translated_code

end Sst
