import SstModel.Generated.Funcs
import SstModel.Model.BlockBuilder
import SstModel.Props.FuncsTie.Same
import SstModel.Props.FuncsTie.BlockIterBasic
/-
  Function-level tie for block_builder.rs: the regenerated translations of
  `BlockBuilder::{entries, size_estimate, add, finish}` compute the model functions of
  `Sst.BlockBuilder` (Model/BlockBuilder.lean) for every input, panics included (up to the text of
  the panic site).

  In these struct methods `usize` additions are checked (`Rt.addW 2^64`), which the model's unbounded
  naturals are not; hence the hypotheses
  * `size_estimate`: `buffer.len() + 4 * restarts.len() + 4 < 2^64` (necessary: `Gen_bb_size_estimate_overflow`);
  * `add`: `counter + 1 < 2^64`, and - only when no restart is started - `restart_counter + 1 < 2^64` and
    `sharedLen last_key key < 2^64` (necessity: `Gen_bb_add_counter_overflow`,
    `Gen_bb_add_restart_counter_overflow`); fuel: `sharedLen last_key key < fuel`, sharp
    (`Gen_bb_add_fuel_short`);
  * `finish`: no overflow hypothesis (`restarts.len() as u32` truncates exactly like the model's
    `encodeFixed32`); fuel: `restarts.len() < fuel`, sharp (`Gen_bb_finish_fuel_short`).
-/
set_option linter.unusedSimpArgs false
namespace Sst
open FuncsTie.BlockIterBasic

namespace FuncsTie.BlockBuilderFn

theorem loopFuel_succ {σ ρ : Type} (body : σ → Res (Rt.LStep σ ρ)) (n : Nat) (s : σ) :
    Rt.loopFuel body (n + 1) s =
      match body s with
      | .ok (.cont s') => Rt.loopFuel body n s'
      | .ok (.brk s') => .ok (.done s')
      | .ok (.ret r) => .ok (.ret r)
      | .err c => .err c
      | .panic m => .panic m
      | .diverge => .diverge := rfl

theorem assert_same (c : Bool) (s s' : String) : Res.same (Rt.assertR c s) (assert c s') := by
  cases c <;> simp only [Rt.assertR, assert, Res.same, if_true, if_false, Bool.false_eq_true]

/-! ### sharedLen -/

theorem sharedLen_le_left : ∀ (a b : Bytes), BlockBuilder.sharedLen a b ≤ a.length
  | [], _ => by simp [BlockBuilder.sharedLen]
  | _ :: _, [] => by simp [BlockBuilder.sharedLen]
  | x :: xs, y :: ys => by
    unfold BlockBuilder.sharedLen
    have := sharedLen_le_left xs ys
    by_cases h : x = y
    · simp only [if_pos h, List.length_cons]; omega
    · simp only [if_neg h]; omega

theorem sharedLen_le_right : ∀ (a b : Bytes), BlockBuilder.sharedLen a b ≤ b.length
  | [], _ => by simp [BlockBuilder.sharedLen]
  | _ :: _, [] => by simp [BlockBuilder.sharedLen]
  | x :: xs, y :: ys => by
    unfold BlockBuilder.sharedLen
    have := sharedLen_le_right xs ys
    by_cases h : x = y
    · simp only [if_pos h, List.length_cons]; omega
    · simp only [if_neg h]; omega

/-- the first `sharedLen a b` bytes of `a` and `b` coincide -/
theorem take_sharedLen : ∀ (a b : Bytes),
    a.take (BlockBuilder.sharedLen a b) = b.take (BlockBuilder.sharedLen a b)
  | [], _ => by simp [BlockBuilder.sharedLen]
  | _ :: _, [] => by simp [BlockBuilder.sharedLen]
  | x :: xs, y :: ys => by
    unfold BlockBuilder.sharedLen
    by_cases h : x = y
    · rw [if_pos h, List.take_succ_cons, List.take_succ_cons, take_sharedLen xs ys, h]
    · rw [if_neg h, List.take_zero, List.take_zero]

theorem sharedLen_nil_left (b : Bytes) : BlockBuilder.sharedLen [] b = 0 := by
  unfold BlockBuilder.sharedLen; rfl

theorem sharedLen_nil_right (a : Bytes) : BlockBuilder.sharedLen a [] = 0 := by
  cases a <;> (unfold BlockBuilder.sharedLen; rfl)

theorem sharedLen_cons (x y : UInt8) (xs ys : Bytes) :
    BlockBuilder.sharedLen (x :: xs) (y :: ys)
      = if x = y then BlockBuilder.sharedLen xs ys + 1 else 0 := by
  rw [BlockBuilder.sharedLen]

/-- the prefix-scan loop of `add`: a body that steps while the bytes agree (and the counter does not
    overflow `W`) computes `sharedLen` -/
theorem shared_loop {ρ : Type} (W : Nat) (a b : Bytes) (body : Nat → Res (Rt.LStep Nat ρ))
    (hcont : ∀ s (h1 : s < a.length) (h2 : s < b.length), a[s] = b[s] → s + 1 < W →
      body s = .ok (.cont (s + 1)))
    (hbrk1 : ∀ s (h1 : s < a.length) (h2 : s < b.length), a[s] ≠ b[s] → body s = .ok (.brk s))
    (hbrk2 : ∀ s, ¬ (s < a.length ∧ s < b.length) → body s = .ok (.brk s)) :
    ∀ (fuel s : Nat), BlockBuilder.sharedLen (a.drop s) (b.drop s) < fuel →
      s + BlockBuilder.sharedLen (a.drop s) (b.drop s) < W →
      Rt.loopFuel body fuel s = .ok (.done (s + BlockBuilder.sharedLen (a.drop s) (b.drop s))) := by
  intro fuel
  induction fuel with
  | zero => intro s h; omega
  | succ n ih =>
    intro s hf hw
    rw [loopFuel_succ]
    by_cases hs : s < a.length ∧ s < b.length
    · obtain ⟨h1, h2⟩ := hs
      rw [List.drop_eq_getElem_cons h1, List.drop_eq_getElem_cons h2, sharedLen_cons] at hf hw ⊢
      by_cases he : a[s] = b[s]
      · rw [if_pos he] at hf hw ⊢
        rw [hcont s h1 h2 he (by omega)]
        simp only
        rw [ih (s + 1) (by omega) (by omega)]
        apply congrArg; apply congrArg; omega
      · rw [if_neg he]
        rw [hbrk1 s h1 h2 he]
        rfl
    · rw [hbrk2 s hs]
      have h0 : BlockBuilder.sharedLen (a.drop s) (b.drop s) = 0 := by
        by_cases h1 : s < a.length
        · have h2 : b.length ≤ s := by omega
          rw [List.drop_eq_nil_of_le h2, sharedLen_nil_right]
        · have h1' : a.length ≤ s := by omega
          rw [List.drop_eq_nil_of_le h1', sharedLen_nil_left]
      rw [h0]
      rfl

/-- ... and runs out of fuel when `fuel ≤ sharedLen` -/
theorem shared_loop_diverge {ρ : Type} (W : Nat) (a b : Bytes) (body : Nat → Res (Rt.LStep Nat ρ))
    (hcont : ∀ s (h1 : s < a.length) (h2 : s < b.length), a[s] = b[s] → s + 1 < W →
      body s = .ok (.cont (s + 1))) :
    ∀ (fuel s : Nat), fuel ≤ BlockBuilder.sharedLen (a.drop s) (b.drop s) →
      s + BlockBuilder.sharedLen (a.drop s) (b.drop s) < W →
      Rt.loopFuel body fuel s = .diverge := by
  intro fuel
  induction fuel with
  | zero => intro s _ _; rfl
  | succ n ih =>
    intro s hf hw
    rw [loopFuel_succ]
    by_cases hs : s < a.length ∧ s < b.length
    · obtain ⟨h1, h2⟩ := hs
      rw [List.drop_eq_getElem_cons h1, List.drop_eq_getElem_cons h2, sharedLen_cons] at hf hw
      by_cases he : a[s] = b[s]
      · rw [if_pos he] at hf hw
        rw [hcont s h1 h2 he (by omega)]
        simp only
        exact ih (s + 1) (by omega) (by omega)
      · rw [if_neg he] at hf; omega
    · have h0 : BlockBuilder.sharedLen (a.drop s) (b.drop s) = 0 := by
        by_cases h1 : s < a.length
        · have h2 : b.length ≤ s := by omega
          rw [List.drop_eq_nil_of_le h2, sharedLen_nil_right]
        · have h1' : a.length ≤ s := by omega
          rw [List.drop_eq_nil_of_le h1', sharedLen_nil_left]
      omega

theorem idx_ok {x : Bytes} {i : Nat} {s : String} (h : i < x.length) :
    Rt.idx x i s = .ok x[i].toNat := by
  unfold Rt.idx; rw [List.getElem?_eq_getElem h]

theorem resizeB_take {x : Bytes} {n fill : Nat} (h : n ≤ x.length) : Rt.resizeB x n fill = x.take n := by
  unfold Rt.resizeB; rw [if_pos h]

/-! ### the restart-array loop of `finish` -/

theorem finish_loop {ρ : Type} (xs : List Nat) (body : Nat × BlockBuilder → Res (Rt.LStep (Nat × BlockBuilder) ρ))
    (hcont : ∀ j (s : BlockBuilder) (h : j < xs.length),
      body (j, s) = .ok (.cont (j + 1, { s with buffer := s.buffer ++ encodeFixed32 xs[j] })))
    (hbrk : ∀ j (s : BlockBuilder), ¬ j < xs.length → body (j, s) = .ok (.brk (j, s))) :
    ∀ (fuel j : Nat) (s : BlockBuilder), j ≤ xs.length → xs.length - j < fuel →
      Rt.loopFuel body fuel (j, s) = .ok (.done (xs.length,
        { s with buffer := s.buffer ++ ((xs.drop j).map encodeFixed32).flatten })) := by
  intro fuel
  induction fuel with
  | zero => intro j s _ h; omega
  | succ n ih =>
    intro j s hj hf
    rw [loopFuel_succ]
    by_cases h : j < xs.length
    · rw [hcont j s h]
      simp only
      rw [ih (j + 1) _ (by omega) (by omega)]
      rw [List.drop_eq_getElem_cons h]
      simp only [List.map_cons, List.flatten_cons, List.append_assoc]
    · rw [hbrk j s h]
      have hj' : j = xs.length := by omega
      subst hj'
      simp only [List.drop_length, List.map_nil, List.flatten_nil, List.append_nil]

theorem finish_loop_diverge {ρ : Type} (xs : List Nat)
    (body : Nat × BlockBuilder → Res (Rt.LStep (Nat × BlockBuilder) ρ))
    (hcont : ∀ j (s : BlockBuilder) (h : j < xs.length),
      body (j, s) = .ok (.cont (j + 1, { s with buffer := s.buffer ++ encodeFixed32 xs[j] }))) :
    ∀ (fuel j : Nat) (s : BlockBuilder), fuel + j ≤ xs.length →
      Rt.loopFuel body fuel (j, s) = .diverge := by
  intro fuel
  induction fuel with
  | zero => intro j s _; rfl
  | succ n ih =>
    intro j s hf
    rw [loopFuel_succ, hcont j s (by omega)]
    simp only
    exact ih (j + 1) _ (by omega)

theorem idxN_ok {x : List Nat} {i : Nat} {s : String} (h : i < x.length) :
    Rt.idxN x i s = .ok x[i] := by
  unfold Rt.idxN; rw [List.getElem?_eq_getElem h]

theorem encodeFixed32_mod (n : Nat) : encodeFixed32 (n % 4294967296) = encodeFixed32 n := by
  unfold encodeFixed32
  have h1 : n % 4294967296 % 256 = n % 256 := by omega
  have h2 : n % 4294967296 / 256 % 256 = n / 256 % 256 := by omega
  have h3 : n % 4294967296 / 65536 % 256 = n / 65536 % 256 := by omega
  have h4 : n % 4294967296 / 16777216 % 256 = n / 16777216 % 256 := by omega
  rw [h1, h2, h3, h4]

end FuncsTie.BlockBuilderFn

open FuncsTie.BlockBuilderFn

/-! ### entries, size_estimate -/

theorem Gen_bb_entries_tie (b : BlockBuilder) : Gen.bb_entries b = .ok b.entries := rfl

theorem Gen_bb_size_estimate_tie (b : BlockBuilder)
    (h : b.buffer.length + 4 * b.restarts.length + 4 < 2 ^ 64) :
    Gen.bb_size_estimate b = .ok b.sizeEstimate := by
  unfold Gen.bb_size_estimate BlockBuilder.sizeEstimate
  have h1 : 4 * b.restarts.length < 18446744073709551616 := by omega
  have h2 : b.buffer.length + 4 * b.restarts.length < 18446744073709551616 := by omega
  have h3 : b.buffer.length + 4 * b.restarts.length + 4 < 18446744073709551616 := by omega
  simp only [mulW_ok h1, addW_ok h2, addW_ok h3, bind_ok, Res.pure_eq]

/-- the hypothesis of `Gen_bb_size_estimate_tie` is necessary: beyond it Rust's checked `usize`
    arithmetic panics, the model's unbounded sum does not -/
theorem Gen_bb_size_estimate_overflow (b : BlockBuilder)
    (h : ¬ b.buffer.length + 4 * b.restarts.length + 4 < 2 ^ 64) :
    (Gen.bb_size_estimate b).isPanic = true := by
  unfold Gen.bb_size_estimate
  by_cases h1 : 4 * b.restarts.length < 18446744073709551616
  · by_cases h2 : b.buffer.length + 4 * b.restarts.length < 18446744073709551616
    · have h3 : ¬ b.buffer.length + 4 * b.restarts.length + 4 < 18446744073709551616 := by omega
      simp only [mulW_ok h1, addW_ok h2, addW_panic h3, bind_ok, bind_panic, Res.isPanic]
    · simp only [mulW_ok h1, addW_panic h2, bind_ok, bind_panic, Res.isPanic]
  · simp only [mulW_panic h1, bind_panic, Res.isPanic]

/-! ### finish -/

theorem Gen_bb_finish_tie (b : BlockBuilder) (fuel : Nat) (hf : b.restarts.length < fuel)
    (hcap : b.restarts.length * 4 + 4 < 2 ^ 64) :
    Gen.bb_finish fuel b = .ok ({ b with buffer := b.finish }, b.finish) := by
  unfold Gen.bb_finish
  have hc1 : b.restarts.length * 4 < 18446744073709551616 := by omega
  have hc2 : b.restarts.length * 4 + 4 < 18446744073709551616 := by omega
  simp only [mulW_ok hc1, addW_ok hc2, bind_ok]
  rw [finish_loop b.restarts _ ?hc ?hb fuel 0 _ (Nat.zero_le _) (by omega)]
  case hc =>
    intro j s h
    simp only [decide_eq_true h, if_true, idxN_ok h, bind_ok, Res.pure_eq]
  case hb =>
    intro j s h
    simp only [decide_eq_false h, Bool.false_eq_true, if_false, Res.pure_eq]
  simp only [bind_ok, Res.pure_eq, List.drop_zero, encodeFixed32_mod, BlockBuilder.finish]

/-- the fuel bound of `Gen_bb_finish_tie` is sharp -/
theorem Gen_bb_finish_fuel_short (b : BlockBuilder) (fuel : Nat) (hf : fuel ≤ b.restarts.length)
    (hcap : b.restarts.length * 4 + 4 < 2 ^ 64) :
    Gen.bb_finish fuel b = .diverge := by
  unfold Gen.bb_finish
  have hc1 : b.restarts.length * 4 < 18446744073709551616 := by omega
  have hc2 : b.restarts.length * 4 + 4 < 18446744073709551616 := by omega
  simp only [mulW_ok hc1, addW_ok hc2, bind_ok]
  rw [finish_loop_diverge b.restarts _ ?hc fuel 0 _ (by omega)]
  case hc =>
    intro j s h
    simp only [decide_eq_true h, if_true, idxN_ok h, bind_ok, Res.pure_eq]
  rfl

/-! ### add -/

namespace FuncsTie.BlockBuilderFn

theorem toNat_beq (x y : UInt8) : (x.toNat == y.toNat) = decide (x = y) := by
  by_cases h : x = y
  · subst h; simp
  · have : x.toNat ≠ y.toNat := fun e => h (UInt8.toNat_inj.mp e)
    simp [h, this]

end FuncsTie.BlockBuilderFn

/-- `add`, with the weakest hypotheses: every one is only needed on the path that evaluates the
    corresponding checked `usize` addition / runs the loop -/
theorem Gen_bb_add_tie_gen (cmp : Cmp) (b : BlockBuilder) (key val : Bytes) (fuel : Nat)
    (hf : b.restartCounter < b.restartInterval → BlockBuilder.sharedLen b.lastKey key < fuel)
    (hk : b.restartCounter < b.restartInterval → BlockBuilder.sharedLen b.lastKey key < 2 ^ 64)
    (hc : b.restartCounter < b.restartInterval → b.restartCounter + 1 < 2 ^ 64)
    (hn : b.counter + 1 < 2 ^ 64) :
    Res.same (Gen.bb_add fuel cmp b key val) (BlockBuilder.add cmp b key val) := by
  unfold Gen.bb_add BlockBuilder.add
  refine same_bind (assert_same _ _ _) ?_
  intro _ _
  refine same_bind (assert_same _ _ _) ?_
  intro _ _
  have hn' : b.counter + 1 < 18446744073709551616 := by omega
  have h01 : 0 + 1 < 18446744073709551616 := by omega
  by_cases hr : b.restartCounter < b.restartInterval
  · have hc' : b.restartCounter + 1 < 18446744073709551616 := by have := hc hr; omega
    have hk' : 0 + BlockBuilder.sharedLen (b.lastKey.drop 0) (key.drop 0) < 18446744073709551616 := by
      have := hk hr; simp only [List.drop_zero]; omega
    have hf' : BlockBuilder.sharedLen (b.lastKey.drop 0) (key.drop 0) < fuel := by
      have := hf hr; simp only [List.drop_zero]; omega
    simp only [decide_eq_true hr, if_true, if_pos hr]
    rw [shared_loop 18446744073709551616 b.lastKey key _ ?hcont ?hb1 ?hb2 fuel 0 hf' hk']
    case hcont =>
      intro s h1 h2 he hw
      have hsm : s < (if decide (b.lastKey.length < key.length) = true then b.lastKey.length
          else key.length) := by
        split <;> omega
      simp only [decide_eq_true hsm, if_true, idx_ok h1, idx_ok h2, bind_ok, Res.pure_eq, he,
        beq_self_eq_true, addW_ok hw]
    case hb1 =>
      intro s h1 h2 he
      have hsm : s < (if decide (b.lastKey.length < key.length) = true then b.lastKey.length
          else key.length) := by
        split <;> omega
      simp only [decide_eq_true hsm, if_true, idx_ok h1, idx_ok h2, bind_ok, Res.pure_eq, toNat_beq,
        decide_eq_false he, Bool.false_eq_true, if_false]
    case hb2 =>
      intro s hs
      have hsm : ¬ s < (if decide (b.lastKey.length < key.length) = true then b.lastKey.length
          else key.length) := by
        split <;> rename_i hd <;> simp only [decide_eq_true_eq] at hd <;> omega
      simp only [decide_eq_false hsm, Bool.false_eq_true, if_false, Res.pure_eq, bind_ok]
    simp only [List.drop_zero, Nat.zero_add, bind_ok]
    have hle := sharedLen_le_right b.lastKey key
    have hle' := sharedLen_le_left b.lastKey key
    simp only [subChk_ok hle, sliceChk_tail hle, resizeB_take hle', addW_ok hc', addW_ok hn', bind_ok,
      Res.pure_eq, Res.same, take_sharedLen b.lastKey key, List.append_assoc]
  · simp only [decide_eq_false hr, Bool.false_eq_true, if_false, if_neg hr]
    have h0 : (0 : Nat) ≤ key.length := Nat.zero_le _
    have h0' : (0 : Nat) ≤ b.lastKey.length := Nat.zero_le _
    have h0'' : (0 : Nat) ≤ ([] : Bytes).length := Nat.zero_le _
    simp only [subChk_ok h0, sliceChk_tail h0, resizeB_take h0', resizeB_take h0'', addW_ok h01,
      addW_ok hn', bind_ok, Res.pure_eq, Res.same, List.take_zero, List.append_assoc]

/-- the fuel bound of `Gen_bb_add_tie_gen` is sharp: with less fuel the translation diverges in the
    prefix scan (the model, which has no fuel, returns) -/
theorem Gen_bb_add_fuel_short (cmp : Cmp) (b : BlockBuilder) (key val : Bytes) (fuel : Nat)
    (ha1 : b.restartCounter ≤ b.restartInterval)
    (ha2 : (b.buffer.isEmpty || cmp.cmp b.lastKey key == .lt) = true)
    (hr : b.restartCounter < b.restartInterval)
    (hk : BlockBuilder.sharedLen b.lastKey key < 2 ^ 64)
    (hf : fuel ≤ BlockBuilder.sharedLen b.lastKey key) :
    Gen.bb_add fuel cmp b key val = .diverge := by
  unfold Gen.bb_add
  have hk' : 0 + BlockBuilder.sharedLen (b.lastKey.drop 0) (key.drop 0) < 18446744073709551616 := by
    simp only [List.drop_zero]; omega
  have hf' : fuel ≤ BlockBuilder.sharedLen (b.lastKey.drop 0) (key.drop 0) := by
    simp only [List.drop_zero]; omega
  simp only [Rt.assertR, decide_eq_true ha1, ha2, if_true, bind_ok, decide_eq_true hr]
  rw [shared_loop_diverge 18446744073709551616 b.lastKey key _ ?hcont fuel 0 hf' hk']
  case hcont =>
    intro s h1 h2 he hw
    have hsm : s < (if decide (b.lastKey.length < key.length) = true then b.lastKey.length
        else key.length) := by
      split <;> omega
    simp only [decide_eq_true hsm, if_true, idx_ok h1, idx_ok h2, bind_ok, Res.pure_eq, he,
      beq_self_eq_true, addW_ok hw]
  rfl

/-- the hypothesis `counter + 1 < 2^64` is necessary: Rust's checked `self.counter += 1` panics at
    `usize::MAX`, the model's unbounded counter does not -/
theorem Gen_bb_add_counter_overflow (cmp : Cmp) :
    (Gen.bb_add 1 cmp { restartInterval := 0, counter := 18446744073709551615 } [] []).isPanic = true
    ∧ (BlockBuilder.add cmp { restartInterval := 0, counter := 18446744073709551615 } [] []).isOk = true :=
  ⟨rfl, rfl⟩

/-- the hypothesis `restart_counter + 1 < 2^64` (outside the restart branch) is necessary likewise -/
theorem Gen_bb_add_restart_counter_overflow (cmp : Cmp) (b : BlockBuilder)
    (hb : b = { restartInterval := 18446744073709551616, restartCounter := 18446744073709551615 }) :
    (Gen.bb_add 1 cmp b [] []).isPanic = true ∧ (BlockBuilder.add cmp b [] []).isOk = true := by
  subst hb; exact ⟨rfl, rfl⟩

theorem Gen_bb_add_tie (cmp : Cmp) (b : BlockBuilder) (key val : Bytes) (fuel : Nat)
    (hf : key.length < fuel) (hk : key.length < 2 ^ 64) (hc : b.restartCounter + 1 < 2 ^ 64)
    (hn : b.counter + 1 < 2 ^ 64) :
    Res.same (Gen.bb_add fuel cmp b key val) (BlockBuilder.add cmp b key val) := by
  have hle := sharedLen_le_right b.lastKey key
  exact Gen_bb_add_tie_gen cmp b key val fuel (fun _ => by omega) (fun _ => by omega) (fun _ => hc) hn

end Sst

#print axioms Sst.Gen_bb_entries_tie
#print axioms Sst.Gen_bb_size_estimate_tie
#print axioms Sst.Gen_bb_size_estimate_overflow
#print axioms Sst.Gen_bb_add_tie_gen
#print axioms Sst.Gen_bb_add_tie
#print axioms Sst.Gen_bb_finish_tie
#print axioms Sst.Gen_bb_finish_fuel_short
#print axioms Sst.Gen_bb_add_fuel_short
#print axioms Sst.Gen_bb_add_counter_overflow
#print axioms Sst.Gen_bb_add_restart_counter_overflow
