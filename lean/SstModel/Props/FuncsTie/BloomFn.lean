import SstModel.Generated.Funcs
import SstModel.Model.Filter
/-
  Tie theorems for the generated translations of filter.rs::bloom_hash and filter.rs::key_may_match
  (`Sst.Gen.bloom_hash`, `Sst.Gen.bloom_key_may_match`): for all inputs (within the stated size
  bounds, which mirror checked `u64` arithmetic of the Rust) they compute exactly the hand-written
  model functions `Sst.Bloom.bloomHash` and `Sst.Bloom.keyMayMatch`.

  Proof shape: each index loop of the generated code is abstracted to "any body that satisfies this
  one-step specification"; the loop lemma is proved against the specification by induction on the
  fuel / the remaining input; the main theorems unfold the generated definition once, rewrite the loop
  with the loop lemma (the body is found by unification, so local names in Funcs.lean do not matter)
  and discharge the one-step specification by `simp only` over the `Rt` vocabulary.

  Kernel hazards avoided on purpose (see also the note in Lemmas/SpecBloom.lean):
  * the multiplier literal 3332679571 is generalised to a variable `m` right after unfolding
    `Gen.bloom_hash`, so neither the elaborator nor the kernel is ever asked to reduce `x * 3332679571`;
  * the equation lemmas `hashWords.eq_1 ..` are never requested (`rw [hashWords]`/`simp [hashWords]`
    does not terminate in reasonable time); `unfold hashWords` on a constructor pattern is used instead;
  * binds are rewritten with the non-`rfl` lemma `bindOk`, not with the `rfl`-lemma `Res.bind_ok`
    (with the latter `simp` leaves a definitional-unfolding obligation that the kernel does not finish).
-/
namespace Sst.FuncsTie.BloomFn
open Sst Sst.Rt Sst.Bloom

/-! ### generic: one unfolding of `loopFuel` -/

private theorem loop_cont {σ ρ : Type} (body : σ → Res (LStep σ ρ)) (n : Nat) (s s' : σ)
    (h : body s = .ok (.cont s')) : loopFuel body (n + 1) s = loopFuel body n s' := by
  simp [loopFuel, h]

private theorem loop_brk {σ ρ : Type} (body : σ → Res (LStep σ ρ)) (n : Nat) (s s' : σ)
    (h : body s = .ok (.brk s')) : loopFuel body (n + 1) s = .ok (.done s') := by
  simp [loopFuel, h]

private theorem loop_ret {σ ρ : Type} (body : σ → Res (LStep σ ρ)) (n : Nat) (s : σ) (r : ρ)
    (h : body s = .ok (.ret r)) : loopFuel body (n + 1) s = .ok (.ret r) := by
  simp [loopFuel, h]

/-- `Res.bind_ok` as a non-`rfl` rewrite rule: `simp` then produces an explicit congruence proof instead
    of asking the kernel to re-discover the reduction by unfolding (which can send the kernel into
    deciding `_ < 2^64` on open terms). -/
private theorem bindOk {α β : Type} (a : α) (f : α → Res β) : (Res.ok a >>= f) = f a := by
  rw [Res.bind_ok]

/-! ### arithmetic -/

private theorem u32_lt (n : Nat) : u32 n < 2 ^ 32 := by
  unfold u32; omega

private theorem xor_lt32 {a b : Nat} (ha : a < 2 ^ 32) (hb : b < 2 ^ 32) : Nat.xor a b < 2 ^ 32 :=
  Nat.xor_lt_two_pow ha hb

private theorem lor_lt32 {a b : Nat} (ha : a < 2 ^ 32) (hb : b < 2 ^ 32) : Nat.lor a b < 2 ^ 32 :=
  Nat.or_lt_two_pow ha hb

private theorem xor_shr_lt32 {a : Nat} (k : Nat) (ha : a < 2 ^ 32) : Nat.xor a (a / 2 ^ k) < 2 ^ 32 :=
  xor_lt32 ha (Nat.lt_of_le_of_lt (Nat.div_le_self _ _) ha)

private theorem decodeFixed32_lt (s : Bytes) : decodeFixed32 s < 2 ^ 32 := by
  unfold decodeFixed32
  split
  · next a b c d =>
    have := a.toNat_lt; have := b.toNat_lt; have := c.toNat_lt; have := d.toNat_lt
    omega
  · decide

private theorem two_pow_mod8 (x : Nat) : 2 ^ (x % 8) % 2 ^ 8 = 2 ^ (x % 8) :=
  Nat.mod_eq_of_lt (Nat.pow_lt_pow_right (by decide) (Nat.mod_lt _ (by decide)))

/-! ### the word loop -/

/-- one round of the 4-bytes-at-a-time loop -/
private def wstep (h w : Nat) : Nat :=
  Nat.xor (u32 (u32 (h + w) * Consts.bloomM)) (u32 (u32 (h + w) * Consts.bloomM) / 2 ^ Consts.bloomMidShift)

private theorem wstep_lt (h w : Nat) : wstep h w < 2 ^ 32 :=
  xor_shr_lt32 _ (u32_lt _)

private theorem hashWords_cons4 (a b c d : UInt8) (r : Bytes) (h : Nat) :
    hashWords (a :: b :: c :: d :: r) h = hashWords r (wstep h (decodeFixed32 [a, b, c, d])) := by
  conv => lhs; unfold hashWords
  simp only [wstep]

private theorem hashTail_cons4 (a b c d : UInt8) (r : Bytes) :
    hashTail (a :: b :: c :: d :: r) = hashTail r := by
  rw [hashTail]

private theorem short_or_long (l : Bytes) :
    l.length < 4 ∨ ∃ a b c d r, l = a :: b :: c :: d :: r := by
  match l with
  | [] => exact .inl (by simp)
  | [_] => exact .inl (by simp)
  | [_, _] => exact .inl (by simp)
  | [_, _, _] => exact .inl (by simp)
  | a :: b :: c :: d :: r => exact .inr ⟨a, b, c, d, r, rfl⟩

private theorem hash_short (l : Bytes) (h : Nat) (hl : l.length < 4) :
    hashWords l h = h ∧ hashTail l = l := by
  match l, hl with
  | [], _ => unfold hashWords hashTail; exact ⟨rfl, rfl⟩
  | [_], _ => unfold hashWords hashTail; exact ⟨rfl, rfl⟩
  | [_, _], _ => unfold hashWords hashTail; exact ⟨rfl, rfl⟩
  | [_, _, _], _ => unfold hashWords hashTail; exact ⟨rfl, rfl⟩
  | _ :: _ :: _ :: _ :: r, hl => simp at hl; omega

private theorem hashWords_lt : ∀ (n : Nat) (l : Bytes) (h : Nat), l.length ≤ n → h < 2 ^ 32 →
    hashWords l h < 2 ^ 32 := by
  intro n
  induction n with
  | zero =>
    intro l h hl hh
    rw [(hash_short l h (by omega)).1]; exact hh
  | succ n ih =>
    intro l h hl hh
    rcases short_or_long l with hs | ⟨a, b, c, d, r, rfl⟩
    · rw [(hash_short l h hs).1]; exact hh
    · rw [hashWords_cons4]
      exact ih r _ (by simp at hl; omega) (wstep_lt _ _)

private theorem tail_spec : ∀ (n : Nat) (l : Bytes), l.length ≤ n →
    (hashTail l).length < 4 ∧ (hashTail l).length ≤ l.length ∧
      l.drop (l.length - (hashTail l).length) = hashTail l := by
  intro n
  induction n with
  | zero =>
    intro l hl
    have hs := (hash_short l 0 (by omega)).2
    rw [hs]; simp; omega
  | succ n ih =>
    intro l hl
    rcases short_or_long l with hs | ⟨a, b, c, d, r, rfl⟩
    · have hs' := (hash_short l 0 hs).2
      rw [hs']; simp; omega
    · rw [hashTail_cons4]
      have ⟨h1, h2, h3⟩ := ih r (by simp at hl; omega)
      refine ⟨h1, by simp; omega, ?_⟩
      have e : (a :: b :: c :: d :: r).length - (hashTail r).length
          = (r.length - (hashTail r).length) + 1 + 1 + 1 + 1 := by simp; omega
      rw [e]
      simpa [List.drop_succ_cons] using h3

private theorem wordLoop (data : Bytes) (body : Nat × Nat → Res (LStep (Nat × Nat) Nat))
    (hcont : ∀ ix h, h < 2 ^ 32 → ix + 4 ≤ data.length →
      body (ix, h) = .ok (.cont (ix + 4, wstep h (decodeFixed32 ((data.drop ix).take 4)))))
    (hbrk : ∀ ix h, ¬ ix + 4 ≤ data.length → body (ix, h) = .ok (.brk (ix, h))) :
    ∀ (fuel : Nat) (rest pre : Bytes) (h : Nat), data = pre ++ rest → h < 2 ^ 32 → rest.length < fuel →
      loopFuel body fuel (pre.length, h)
        = .ok (.done (data.length - (hashTail rest).length, hashWords rest h)) := by
  intro fuel
  induction fuel with
  | zero => intro rest pre h _ _ hf; omega
  | succ fuel ih =>
    intro rest pre h hd hh hf
    rcases short_or_long rest with hs | ⟨a, b, c, d, r, rfl⟩
    · have ⟨e1, e2⟩ := hash_short rest h hs
      have hlen : data.length = pre.length + rest.length := by rw [hd]; simp
      rw [loop_brk body fuel _ _ (hbrk pre.length h (by omega)), e1, e2]
      have : data.length - rest.length = pre.length := by omega
      rw [this]
    · have hlen : data.length = pre.length + (r.length + 4) := by rw [hd]; simp
      rw [loop_cont body fuel _ _ (hcont pre.length h hh (by omega))]
      have e : (data.drop pre.length).take 4 = [a, b, c, d] := by rw [hd]; simp
      rw [e, hashWords_cons4, hashTail_cons4]
      have := ih r (pre ++ [a, b, c, d]) (wstep h (decodeFixed32 [a, b, c, d]))
        (by rw [hd]; simp) (wstep_lt _ _) (by simp at hf; omega)
      simpa using this

private theorem wordLoop0 (data : Bytes) (body : Nat × Nat → Res (LStep (Nat × Nat) Nat))
    (hcont : ∀ ix h, h < 2 ^ 32 → ix + 4 ≤ data.length →
      body (ix, h) = .ok (.cont (ix + 4, wstep h (decodeFixed32 ((data.drop ix).take 4)))))
    (hbrk : ∀ ix h, ¬ ix + 4 ≤ data.length → body (ix, h) = .ok (.brk (ix, h)))
    (fuel h : Nat) (hh : h < 2 ^ 32) (hf : data.length < fuel) :
    loopFuel body fuel (0, h)
      = .ok (.done (data.length - (hashTail data).length, hashWords data h)) :=
  wordLoop data body hcont hbrk fuel data [] h rfl hh hf

/-! ### the tail loop -/

private theorem tailLoop (xs : Bytes) (body : Nat × Nat × Nat → Res (LStep (Nat × Nat × Nat) Nat))
    (hcont : ∀ j h i b, xs[j]? = some b → i < 4 →
      body (j, h, i) = .ok (.cont (j + 1, u32 (h + u32 (b.toNat * 2 ^ (8 * i))), i + 1)))
    (hbrk : ∀ j h i, xs.length ≤ j → body (j, h, i) = .ok (.brk (j, h, i)))
    (hx : xs.length ≤ 4) :
    ∀ (rest pre : Bytes) (h fuel : Nat), xs = pre ++ rest → rest.length < fuel →
      loopFuel body fuel (pre.length, h, pre.length)
        = .ok (.done (xs.length, addTail rest pre.length h, xs.length)) := by
  intro rest
  induction rest with
  | nil =>
    intro pre h fuel hd hf
    match fuel, hf with
    | fuel + 1, _ =>
      have hl : xs.length = pre.length := by rw [hd]; simp
      rw [loop_brk body fuel _ _ (hbrk pre.length h pre.length (by omega)), hl]
      simp [addTail]
  | cons b rest ih =>
    intro pre h fuel hd hf
    match fuel, hf with
    | fuel + 1, hf =>
      have hl : xs.length = pre.length + (rest.length + 1) := by rw [hd]; simp
      have hb : xs[pre.length]? = some b := by rw [hd]; simp
      rw [loop_cont body fuel _ _ (hcont pre.length h pre.length b hb (by omega))]
      have := ih (pre ++ [b]) (u32 (h + u32 (b.toNat * 2 ^ (8 * pre.length)))) fuel
        (by rw [hd]; simp) (by simp at hf; omega)
      simpa [addTail] using this

private theorem tailLoop0 (xs : Bytes) (body : Nat × Nat × Nat → Res (LStep (Nat × Nat × Nat) Nat))
    (hcont : ∀ j h i b, xs[j]? = some b → i < 4 →
      body (j, h, i) = .ok (.cont (j + 1, u32 (h + u32 (b.toNat * 2 ^ (8 * i))), i + 1)))
    (hbrk : ∀ j h i, xs.length ≤ j → body (j, h, i) = .ok (.brk (j, h, i)))
    (hx : xs.length ≤ 4) (h fuel : Nat) (hf : xs.length < fuel) :
    loopFuel body fuel (0, h, 0) = .ok (.done (xs.length, addTail xs 0 h, xs.length)) :=
  tailLoop xs body hcont hbrk hx xs [] h fuel rfl hf

private theorem addTail_lt : ∀ (l : Bytes) (i h : Nat), h < 2 ^ 32 → addTail l i h < 2 ^ 32 := by
  intro l
  induction l with
  | nil => intro i h hh; simpa [addTail] using hh
  | cons b l ih => intro i h _; simp only [addTail]; exact ih _ _ (u32_lt _)

/-! ### the probe loop -/

/-- what the probe loop hands on: `ret false` at the first unset bit, else the final loop state -/
private def probeEnd (bits d : Nat) (f : Bytes) : Nat → Nat → Nat → Flow (Nat × Nat) Bool
  | 0, i, h => .done (i, h)
  | n + 1, i, h => if testBit f (h % bits) then probeEnd bits d f n (i + 1) (u32 (h + d)) else .ret false

private theorem probeEnd_cases (bits d : Nat) (f : Bytes) : ∀ (n i h : Nat),
    (∃ s, probeEnd bits d f n i h = .done s ∧ checkProbes bits d f n h = true) ∨
    (probeEnd bits d f n i h = .ret false ∧ checkProbes bits d f n h = false) := by
  intro n
  induction n with
  | zero => intro i h; exact .inl ⟨(i, h), rfl, rfl⟩
  | succ n ih =>
    intro i h
    by_cases ht : testBit f (h % bits) = true
    · simpa only [probeEnd, checkProbes, ht, if_true] using ih (i + 1) (u32 (h + d))
    · exact .inr (by simp only [probeEnd, checkProbes, ht, Bool.false_eq_true, if_false, and_self])

private theorem probeLoop (bits d k : Nat) (f : Bytes) (body : Nat × Nat → Res (LStep (Nat × Nat) Bool))
    (hstep : ∀ i h, h < 2 ^ 32 → i < k →
      body (i, h) = if testBit f (h % bits) then .ok (.cont (i + 1, u32 (h + d))) else .ok (.ret false))
    (hbrk : ∀ i h, ¬ i < k → body (i, h) = .ok (.brk (i, h))) :
    ∀ (n i h fuel : Nat), i + n = k → n < fuel → h < 2 ^ 32 →
      loopFuel body fuel (i, h) = .ok (probeEnd bits d f n i h) := by
  intro n
  induction n with
  | zero =>
    intro i h fuel hi hf hh
    match fuel, hf with
    | fuel + 1, _ =>
      rw [loop_brk body fuel _ _ (hbrk i h (by omega))]
      rfl
  | succ n ih =>
    intro i h fuel hi hf hh
    match fuel, hf with
    | fuel + 1, hf =>
      have hs := hstep i h hh (by omega)
      by_cases ht : testBit f (h % bits) = true
      · rw [if_pos ht] at hs
        rw [loop_cont body fuel _ _ hs, ih (i + 1) (u32 (h + d)) fuel (by omega) (by omega) (u32_lt _)]
        simp only [probeEnd, ht, if_true]
      · rw [if_neg ht] at hs
        rw [loop_ret body fuel _ _ hs]
        simp only [probeEnd, ht, Bool.false_eq_true, if_false]

private theorem probeLoop0 (bits d k : Nat) (f : Bytes) (body : Nat × Nat → Res (LStep (Nat × Nat) Bool))
    (hstep : ∀ i h, h < 2 ^ 32 → i < k →
      body (i, h) = if testBit f (h % bits) then .ok (.cont (i + 1, u32 (h + d))) else .ok (.ret false))
    (hbrk : ∀ i h, ¬ i < k → body (i, h) = .ok (.brk (i, h)))
    (h fuel : Nat) (hf : k < fuel) (hh : h < 2 ^ 32) :
    loopFuel body fuel (0, h) = .ok (probeEnd bits d f k 0 h) :=
  probeLoop bits d k f body hstep hbrk k 0 h fuel (by omega) hf hh

end Sst.FuncsTie.BloomFn

namespace Sst
open Sst.Rt Sst.Bloom Sst.FuncsTie.BloomFn

theorem Gen_bloom_hash_lt (data : Bytes) : Bloom.bloomHash data < 2 ^ 32 := by
  have h0 : Nat.xor Consts.bloomSeed (u32 (data.length * Consts.bloomM)) < 2 ^ 32 :=
    xor_lt32 (by decide) (u32_lt _)
  have h1 := hashWords_lt data.length data _ (Nat.le_refl _) h0
  unfold Bloom.bloomHash
  simp only []
  split
  · exact xor_shr_lt32 _ (u32_lt _)
  · exact h1

theorem Gen_bloom_hash_tie (data : Bytes) (fuel : Nat) (hf : data.length < fuel)
    (hlen : data.length * 3332679571 < 2 ^ 64) :
    Gen.bloom_hash fuel data = .ok (Bloom.bloomHash data) := by
  have hlen' : data.length * 3332679571 < 18446744073709551616 := hlen
  have ⟨ht4, htle, htdrop⟩ := tail_spec data.length data (Nat.le_refl _)
  unfold Gen.bloom_hash
  generalize hm : (3332679571 : Nat) = m at hlen' ⊢
  have hM : Consts.bloomM = m := hm
  have hm32 : m < 2 ^ 32 := by rw [← hm]; decide
  have h0 : Nat.xor 3164544308 (data.length * m % 4294967296) < 2 ^ 32 :=
    xor_lt32 (by decide) (by omega)
  have h1 := hashWords_lt data.length data _ (Nat.le_refl _) h0
  simp only [Rt.mulW, hlen', if_true, bindOk, Res.pure_eq]
  rw [wordLoop0 data _ ?hc ?hb fuel _ h0 hf]
  case hc =>
    intro ix h hh hix
    have hw := decodeFixed32_lt ((data.drop ix).take 4)
    have hl4 : ((data.drop ix).take 4).length = 4 := by simp; omega
    have e1 : h + decodeFixed32 ((data.drop ix).take 4) < 18446744073709551616 := by omega
    have e2 : (h + decodeFixed32 ((data.drop ix).take 4)) % 4294967296 * m
        < 18446744073709551616 := by
      have := Nat.mul_lt_mul'' (Nat.mod_lt (h + decodeFixed32 ((data.drop ix).take 4))
        (by decide : 0 < 4294967296)) hm32
      omega
    have hs : slice? data ix (ix + 4) = some ((data.drop ix).take 4) := by
      simp [slice?, hix]
    simp only [Rt.sliceChk, hs, Rt.decodeFixed32Chk, hl4, Rt.addW, e1, e2, Rt.shrChk, Rt.wrappingShr, Nat.reduceMod, hix, wstep, u32,
      hM, Consts.bloomMidShift, bindOk, if_true, decide_true, Nat.reduceLT, Nat.reducePow]
  case hb =>
    intro ix h hix
    simp [hix]
  have e3 : data.length - (data.length - (hashTail data).length) = (hashTail data).length := by omega
  have hs2 : slice? data (data.length - (hashTail data).length) data.length = some (hashTail data) := by
    simp only [slice?, Nat.sub_le, Nat.le_refl, and_self, if_true, htdrop, e3, List.take_length]
  have h2 := addTail_lt (hashTail data) 0 _ h1
  have e4 : addTail (hashTail data) 0
      (hashWords data (Nat.xor 3164544308 (data.length * m % 4294967296))) * m < 18446744073709551616 := by
    have := Nat.mul_lt_mul'' h2 hm32
    omega
  simp only [bindOk, Rt.subChk, Nat.sub_le, if_true, e3, Rt.assertR, ht4, decide_true]
  unfold Bloom.bloomHash
  simp only [hM, u32, Consts.bloomSeed, Consts.bloomR]
  by_cases hpos : (hashTail data).length > 0
  · simp only [hpos, decide_true, if_true, Rt.sliceChk, hs2, bindOk]
    rw [tailLoop0 (hashTail data) _ ?hc2 ?hb2 (by omega) _ fuel (by omega)]
    case hc2 =>
      intro j h i b hb hi
      have hj : j < (hashTail data).length := (List.getElem?_eq_some_iff.mp hb).1
      have hi8 : 8 * i < 32 := by omega
      simp only [hj, decide_true, if_true, Rt.idx, hb, Rt.shlChk, hi8, bindOk, Rt.wrappingAdd, u32,
        Nat.reducePow]
    case hb2 =>
      intro j h i hj
      have : ¬ j < (hashTail data).length := by omega
      simp only [this, decide_false, Bool.false_eq_true, if_false]
    simp only [bindOk, e4, if_true, Rt.shrChk, Nat.reduceLT]
  · simp only [hpos, decide_false, Bool.false_eq_true, if_false]

theorem Gen_bloom_key_may_match_tie' (key filter : Bytes) (fuel : Nat) (hf : key.length < fuel) (hk : 30 < fuel)
    (hlen : key.length * 3332679571 < 2 ^ 64) (hfl : filter.length < 2 ^ 61) :
    Gen.bloom_key_may_match fuel key filter = .ok (Bloom.keyMayMatch key filter) := by
  unfold Gen.bloom_key_may_match Bloom.keyMayMatch
  by_cases hl : filter.length < 2
  · simp only [hl, decide_true, if_true, Res.pure_eq]
  · have h1 : 1 ≤ filter.length := by omega
    have hb64 : (2 : Nat) ^ Consts.bloomBitsWidth = 18446744073709551616 := by decide
    have hmul : (filter.length - 1) * 8 < 18446744073709551616 := by omega
    have hbits : (filter.length - 1) * 8 % 18446744073709551616 = (filter.length - 1) * 8 :=
      Nat.mod_eq_of_lt hmul
    obtain ⟨kb, hkb⟩ : ∃ kb, filter[filter.length - 1]? = some kb :=
      ⟨_, List.getElem?_eq_getElem (by omega)⟩
    have hs : slice? filter 0 (filter.length - 1) = some (filter.take (filter.length - 1)) := by
      simp only [slice?, Nat.zero_le, Nat.sub_le, and_self, if_true, List.drop_zero, Nat.sub_zero]
    simp only [hl, decide_false, Bool.false_eq_true, if_false, Rt.subChk, h1, if_true, bindOk, Rt.mulW, hmul,
      Rt.idx, hkb, Rt.sliceChk, hs, List.getD_eq_getElem?_getD, Option.getD_some, hb64, hbits]
    by_cases hk30 : kb.toNat > 30
    · simp only [hk30, decide_true, if_true, Res.pure_eq]
    · have hH := Gen_bloom_hash_lt key
      have hd : delta (bloomHash key) < 2 ^ 32 := by
        unfold delta
        exact lor_lt32 (Nat.lt_of_le_of_lt (Nat.div_le_self _ _) hH) (u32_lt _)
      have hdelta : Nat.lor (bloomHash key / 2 ^ 17) (bloomHash key * 2 ^ 15 % 2 ^ 32) = delta (bloomHash key) := by
        simp only [delta, u32, Consts.bloomDeltaShr, Consts.bloomDeltaShl, Nat.reducePow]
      simp only [hk30, decide_false, Bool.false_eq_true, if_false, Gen_bloom_hash_tie key fuel hf hlen, bindOk,
        Rt.shrChk, Rt.shlChk, Rt.wrappingShr, Rt.wrappingShl, Nat.reduceMod, Nat.reduceLT, if_true, hdelta, Res.pure_eq]
      rw [probeLoop0 ((filter.length - 1) * 8) (delta (bloomHash key)) kb.toNat
        (filter.take (filter.length - 1)) _ ?hstep ?hbrk _ fuel (by omega) hH]
      case hbrk =>
        intro i h hi
        simp only [hi, decide_false, Bool.false_eq_true, if_false]
      case hstep =>
        intro i h hh hi
        have hb0 : ¬ ((filter.length - 1) * 8 = 0) := by omega
        have h80 : ¬ ((8 : Nat) = 0) := by decide
        have hpos : h % ((filter.length - 1) * 8) / 8 < (filter.take (filter.length - 1)).length := by
          have := Nat.mod_lt h (Nat.pos_of_ne_zero hb0)
          rw [List.length_take]; omega
        obtain ⟨v, hv⟩ : ∃ v, (filter.take (filter.length - 1))[h % ((filter.length - 1) * 8) / 8]? = some v :=
          ⟨_, List.getElem?_eq_getElem hpos⟩
        have h8 : h % ((filter.length - 1) * 8) % 8 < 8 := Nat.mod_lt _ (by decide)
        have hadd : h + delta (bloomHash key) < 18446744073709551616 := by omega
        simp only [hi, decide_true, if_true, Rt.modChk, hb0, if_false, Rt.divChk, h80, bindOk, hv, h8,
          Nat.one_mul, two_pow_mod8, Rt.addW, hadd, testBit, List.getD_eq_getElem?_getD, Option.getD_some, u32]
        by_cases hz : Nat.land v.toNat (2 ^ (h % ((filter.length - 1) * 8) % 8)) = 0
        · simp only [hz, beq_self_eq_true, if_true, ne_eq, not_true_eq_false, decide_false,
            Bool.false_eq_true, if_false]
        · simp only [hz, ne_eq, not_false_eq_true, decide_true, if_true,
            beq_iff_eq, if_false]
      rcases probeEnd_cases ((filter.length - 1) * 8) (delta (bloomHash key)) (filter.take (filter.length - 1))
        kb.toNat 0 (bloomHash key) with ⟨s, e1, e2⟩ | ⟨e1, e2⟩
      · rw [e1, e2]; rfl
      · rw [e1, e2]; rfl

theorem Gen_bloom_key_may_match_tie (key filter : Bytes) (fuel : Nat) (hf : key.length < fuel) (hk : 256 ≤ fuel)
    (hlen : key.length * 3332679571 < 2 ^ 64) (hfl : filter.length < 2 ^ 61) :
    Gen.bloom_key_may_match fuel key filter = .ok (Bloom.keyMayMatch key filter) :=
  Gen_bloom_key_may_match_tie' key filter fuel hf (by omega) hlen hfl

end Sst

#print axioms Sst.Gen_bloom_hash_tie
#print axioms Sst.Gen_bloom_hash_lt
#print axioms Sst.Gen_bloom_key_may_match_tie'
#print axioms Sst.Gen_bloom_key_may_match_tie
