import SstModel.Generated.Funcs
import SstModel.Model.Block
import SstModel.Props.FuncsTie.Same
import SstModel.Lemmas.Codec
/-
  Function-level tie for block.rs, part 1: the regenerated translations of
  `BlockIter::{number_restarts, get_restart_point, reset, valid, assemble_key, parse_entry_and_advance}`
  compute the model functions of `Sst.BlockIter` (Model/Block.lean) for every input, panics included
  (up to the text of the panic site).

  In these methods `usize` additions / multiplications are checked (`Rt.addW 2^64`, `Rt.mulW 2^64`).  The
  only type invariant needed is `it.block.length < 2^64` (a `Vec<u8>` cannot be longer): every overflowing
  sum is then also an out-of-range slice bound, where the model panics as well.
-/
set_option linter.unusedSimpArgs false
namespace Sst
namespace FuncsTie.BlockIterBasic

/-! ### helpers (shared with BlockIterStep) -/

theorem addW_ok {w a b : Nat} {s : String} (h : a + b < w) : Rt.addW w a b s = .ok (a + b) := by
  unfold Rt.addW; rw [if_pos h]

theorem addW_panic {w a b : Nat} {s : String} (h : ¬ a + b < w) : Rt.addW w a b s = .panic s := by
  unfold Rt.addW; rw [if_neg h]

theorem mulW_ok {w a b : Nat} {s : String} (h : a * b < w) : Rt.mulW w a b s = .ok (a * b) := by
  unfold Rt.mulW; rw [if_pos h]

theorem mulW_panic {w a b : Nat} {s : String} (h : ¬ a * b < w) : Rt.mulW w a b s = .panic s := by
  unfold Rt.mulW; rw [if_neg h]

theorem subChk_ok {a b : Nat} {s : String} (h : b ≤ a) : Rt.subChk a b s = .ok (a - b) := by
  unfold Rt.subChk; rw [if_pos h]

theorem subChk_panic {a b : Nat} {s : String} (h : ¬ b ≤ a) : Rt.subChk a b s = .panic s := by
  unfold Rt.subChk; rw [if_neg h]

/-- non-`rfl` copies of the bind laws (a `rfl` simp lemma makes the kernel unfold what follows) -/
theorem bind_ok {α β} (a : α) (f : α → Res β) : (Res.ok a >>= f) = f a := by rw [Res.bind_ok]
theorem bind_panic {α β} (s : String) (f : α → Res β) : ((Res.panic s : Res α) >>= f) = .panic s := by
  rw [Res.bind_panic]

theorem same_panic {α} (s s' : String) : Res.same (.panic s : Res α) (.panic s') := trivial

theorem slice?_some {b : Bytes} {lo hi : Nat} (h1 : lo ≤ hi) (h2 : hi ≤ b.length) :
    slice? b lo hi = some ((b.drop lo).take (hi - lo)) := by
  unfold slice?; rw [if_pos ⟨h1, h2⟩]

theorem slice?_none {b : Bytes} {lo hi : Nat} (h : ¬ (lo ≤ hi ∧ hi ≤ b.length)) :
    slice? b lo hi = none := by
  unfold slice?; rw [if_neg h]

theorem sliceChk_ok {b : Bytes} {lo hi : Nat} {s : String} (h1 : lo ≤ hi) (h2 : hi ≤ b.length) :
    Rt.sliceChk b lo hi s = .ok ((b.drop lo).take (hi - lo)) := by
  unfold Rt.sliceChk; rw [slice?_some h1 h2]

theorem sliceChk_panic {b : Bytes} {lo hi : Nat} {s : String} (h : ¬ (lo ≤ hi ∧ hi ≤ b.length)) :
    Rt.sliceChk b lo hi s = .panic s := by
  unfold Rt.sliceChk; rw [slice?_none h]

/-- `&b[lo..b.len()]` is `b.drop lo` -/
theorem sliceChk_tail {b : Bytes} {lo : Nat} {s : String} (h : lo ≤ b.length) :
    Rt.sliceChk b lo b.length s = .ok (b.drop lo) := by
  rw [sliceChk_ok h (Nat.le_refl _)]
  apply congrArg
  apply List.take_of_length_le
  simp

theorem decodeFixed32Chk_ok {x : Bytes} {s : String} (h : x.length = 4) :
    Rt.decodeFixed32Chk x s = .ok (decodeFixed32 x) := by
  unfold Rt.decodeFixed32Chk; rw [if_pos h]

end FuncsTie.BlockIterBasic

open FuncsTie.BlockIterBasic

/-! ### number_restarts -/

theorem Gen_bi_number_restarts_tie (it : BlockIter) (h : 4 ≤ it.block.length) :
    Gen.bi_number_restarts it = .ok it.numberRestarts := by
  unfold Gen.bi_number_restarts BlockIter.numberRestarts
  have hs : it.block.length - 4 ≤ it.block.length := by omega
  have hl : (it.block.drop (it.block.length - 4)).length = 4 := by simp; omega
  simp only [subChk_ok h, bind_ok, sliceChk_tail hs, decodeFixed32Chk_ok hl, Res.pure_eq]

theorem Gen_bi_number_restarts_short (it : BlockIter) (h : it.block.length < 4) :
    (Gen.bi_number_restarts it).isPanic = true := by
  unfold Gen.bi_number_restarts
  have hs : ¬ 4 ≤ it.block.length := by omega
  simp only [subChk_panic hs, bind_panic, Res.isPanic]

/-! ### get_restart_point -/

theorem Gen_bi_get_restart_point_tie (it : BlockIter) (ix : Nat) (hlen : it.block.length < 2 ^ 64) :
    Res.same (Gen.bi_get_restart_point it ix) (it.getRestartPoint ix) := by
  unfold Gen.bi_get_restart_point BlockIter.getRestartPoint fixed32At
  by_cases h : it.restartsOff + 4 * ix + 4 ≤ it.block.length
  · have h1 : 4 * ix < 18446744073709551616 := by omega
    have h2 : it.restartsOff + 4 * ix < 18446744073709551616 := by omega
    have h3 : it.restartsOff + 4 * ix + 4 < 18446744073709551616 := by omega
    have h4 : it.restartsOff + 4 * ix ≤ it.restartsOff + 4 * ix + 4 := by omega
    have hl : ((it.block.drop (it.restartsOff + 4 * ix)).take
        (it.restartsOff + 4 * ix + 4 - (it.restartsOff + 4 * ix))).length = 4 := by simp; omega
    simp only [mulW_ok h1, addW_ok h2, addW_ok h3, bind_ok, sliceChk_ok h4 h, decodeFixed32Chk_ok hl,
      slice?_some h4 h, Option.map_some, Res.pure_eq, Res.same]
  · have hn : ¬ (it.restartsOff + 4 * ix ≤ it.restartsOff + 4 * ix + 4 ∧
        it.restartsOff + 4 * ix + 4 ≤ it.block.length) := by omega
    simp only [slice?_none hn, Option.map_none]
    by_cases h1 : 4 * ix < 18446744073709551616
    · by_cases h2 : it.restartsOff + 4 * ix < 18446744073709551616
      · by_cases h3 : it.restartsOff + 4 * ix + 4 < 18446744073709551616
        · simp only [mulW_ok h1, addW_ok h2, addW_ok h3, bind_ok, sliceChk_panic hn, bind_panic, Res.same]
        · simp only [mulW_ok h1, addW_ok h2, addW_panic h3, bind_ok, bind_panic, Res.same]
      · simp only [mulW_ok h1, addW_panic h2, bind_ok, bind_panic, Res.same]
    · simp only [mulW_panic h1, bind_panic, Res.same]

/-! ### reset, valid -/

theorem Gen_bi_reset_tie (it : BlockIter) : Gen.bi_reset it = .ok it.reset := rfl

theorem Gen_bi_valid_tie (it : BlockIter) : Gen.bi_valid it = .ok it.valid := rfl

/-! ### assemble_key -/

theorem Gen_bi_assemble_key_tie (it : BlockIter) (off shared nonShared : Nat)
    (hlen : it.block.length < 2 ^ 64) :
    Res.same (Gen.bi_assemble_key it off shared nonShared) (it.assembleKey off shared nonShared) := by
  unfold Gen.bi_assemble_key BlockIter.assembleKey
  by_cases h : off + nonShared ≤ it.block.length
  · have h1 : off + nonShared < 18446744073709551616 := by omega
    have h2 : off ≤ off + nonShared := by omega
    simp only [addW_ok h1, bind_ok, sliceChk_ok h2 h, slice?_some h2 h, Res.pure_eq, Res.same]
  · have hn : ¬ (off ≤ off + nonShared ∧ off + nonShared ≤ it.block.length) := by omega
    simp only [slice?_none hn]
    by_cases h1 : off + nonShared < 18446744073709551616
    · simp only [addW_ok h1, bind_ok, sliceChk_panic hn, bind_panic, Res.same]
    · simp only [addW_panic h1, bind_panic, Res.same]

/-! ### parse_entry_and_advance -/

/-- the translation also returns `valsize`, the model does not -/
def dropValsize : Res (BlockIter × (Nat × Nat × Nat × Nat)) → Res (BlockIter × Nat × Nat × Nat)
  | .ok (it, (shared, nonShared, _, headLen)) => .ok (it, shared, nonShared, headLen)
  | .err c => .err c
  | .panic s => .panic s
  | .diverge => .diverge

theorem Gen_bi_parse_entry_and_advance_tie (it : BlockIter) (hlen : it.block.length < 2 ^ 64) :
    Res.same (dropValsize (Gen.bi_parse_entry_and_advance it)) it.parseEntryAndAdvance := by
  unfold Gen.bi_parse_entry_and_advance BlockIter.parseEntryAndAdvance
  by_cases h0 : it.offset ≤ it.block.length
  · have h0' : ¬ it.offset > it.block.length := by omega
    simp only [sliceChk_tail h0, bind_ok, if_neg h0']
    cases hd1 : decodeVarint (it.block.drop it.offset) with
    | none => simp only [Rt.unwrapO, bind_panic, dropValsize, Res.same]
    | some p1 =>
      obtain ⟨shared, l1⟩ := p1
      have b1 := decodeVarint_some_len _ _ _ hd1
      simp only [List.length_drop] at b1
      have a1 : 0 + l1 < 18446744073709551616 := by omega
      have a2 : it.offset + l1 < 18446744073709551616 := by omega
      have s2 : it.offset + l1 ≤ it.block.length := by omega
      have s2' : ¬ it.offset + l1 > it.block.length := by omega
      simp only [Rt.unwrapO, bind_ok, addW_ok a1, Nat.zero_add, addW_ok a2, sliceChk_tail s2, if_neg s2']
      cases hd2 : decodeVarint (it.block.drop (it.offset + l1)) with
      | none => simp only [Rt.unwrapO, bind_panic, dropValsize, Res.same]
      | some p2 =>
        obtain ⟨nonShared, l2⟩ := p2
        have b2 := decodeVarint_some_len _ _ _ hd2
        simp only [List.length_drop] at b2
        have a3 : l1 + l2 < 18446744073709551616 := by omega
        have a4 : it.offset + (l1 + l2) < 18446744073709551616 := by omega
        have s3 : it.offset + (l1 + l2) ≤ it.block.length := by omega
        have s3' : ¬ it.offset + l1 + l2 > it.block.length := by omega
        have s3'' : ¬ it.offset + (l1 + l2) > it.block.length := by omega
        have e3 : it.offset + l1 + l2 = it.offset + (l1 + l2) := by omega
        simp only [Rt.unwrapO, bind_ok, addW_ok a3, addW_ok a4, sliceChk_tail s3, if_neg s3', if_neg s3'', e3]
        cases hd3 : decodeVarint (it.block.drop (it.offset + (l1 + l2))) with
        | none => simp only [Rt.unwrapO, bind_panic, dropValsize, Res.same]
        | some p3 =>
          obtain ⟨valsize, l3⟩ := p3
          have b3 := decodeVarint_some_len _ _ _ hd3
          simp only [List.length_drop] at b3
          have a5 : l1 + l2 + l3 < 18446744073709551616 := by omega
          have a6 : it.offset + (l1 + l2 + l3) < 18446744073709551616 := by omega
          simp only [Rt.unwrapO, bind_ok, addW_ok a5, addW_ok a6]
          by_cases a7 : it.offset + (l1 + l2 + l3) + nonShared < 18446744073709551616
          · by_cases a8 : it.offset + (l1 + l2 + l3) + nonShared + valsize < 18446744073709551616
            · have c : ¬ (it.offset + (l1 + l2 + l3) + nonShared ≥ 2 ^ 64 ∨
                  it.offset + (l1 + l2 + l3) + nonShared + valsize ≥ 2 ^ 64) := by omega
              simp only [addW_ok a7, addW_ok a8, bind_ok, if_neg c, Res.pure_eq, dropValsize, Res.same]
            · have c : (it.offset + (l1 + l2 + l3) + nonShared ≥ 2 ^ 64 ∨
                  it.offset + (l1 + l2 + l3) + nonShared + valsize ≥ 2 ^ 64) := by omega
              simp only [addW_ok a7, addW_panic a8, bind_ok, bind_panic, if_pos c, dropValsize, Res.same]
          · have c : (it.offset + (l1 + l2 + l3) + nonShared ≥ 2 ^ 64 ∨
                it.offset + (l1 + l2 + l3) + nonShared + valsize ≥ 2 ^ 64) := by omega
            simp only [addW_panic a7, bind_panic, if_pos c, dropValsize, Res.same]
  · have h0' : it.offset > it.block.length := by omega
    have hn : ¬ (it.offset ≤ it.block.length ∧ it.block.length ≤ it.block.length) := by omega
    simp only [sliceChk_panic hn, bind_panic, if_pos h0', dropValsize, Res.same]

/-! ### composition lemmas and frame facts used by BlockIterStep -/

namespace FuncsTie.BlockIterBasic

theorem same_bind {α β} {r m : Res α} {f g : α → Res β} (h : Res.same r m)
    (hfg : ∀ a, m = .ok a → Res.same (f a) (g a)) : Res.same (r >>= f) (m >>= g) := by
  cases r <;> cases m <;> simp only [Res.same] at h
  · subst h; exact hfg _ rfl
  · subst h; exact Res.same_refl _
  · exact same_panic _ _
  · exact Res.same_refl _

theorem same_bind_drop {β} {r : Res (BlockIter × (Nat × Nat × Nat × Nat))}
    {m : Res (BlockIter × Nat × Nat × Nat)}
    {f : BlockIter × (Nat × Nat × Nat × Nat) → Res β} {g : BlockIter × Nat × Nat × Nat → Res β}
    (h : Res.same (dropValsize r) m)
    (hfg : ∀ it s ns v hl, m = .ok (it, s, ns, hl) → Res.same (f (it, (s, ns, v, hl))) (g (it, s, ns, hl))) :
    Res.same (r >>= f) (m >>= g) := by
  cases r with
  | ok a =>
    obtain ⟨it, s, ns, v, hl⟩ := a
    cases m <;> simp only [dropValsize, Res.same] at h
    subst h; exact hfg _ _ _ _ _ rfl
  | err c => cases m <;> simp only [dropValsize, Res.same] at h; subst h; exact Res.same_refl _
  | panic s => cases m <;> simp only [dropValsize, Res.same] at h; exact same_panic _ _
  | diverge => cases m <;> simp only [dropValsize, Res.same] at h; exact Res.same_refl _

/-- what a successful `parseEntryAndAdvance` leaves unchanged, and where the header ends -/
theorem parseEntryAndAdvance_ok {it it' : BlockIter} {s ns hl : Nat}
    (h : it.parseEntryAndAdvance = .ok (it', s, ns, hl)) :
    it'.block = it.block ∧ it'.restartsOff = it.restartsOff ∧ it'.curRestartIx = it.curRestartIx ∧
    it'.curEntryOff = it.curEntryOff ∧ it'.key = it.key ∧ it.offset + hl ≤ it.block.length := by
  unfold BlockIter.parseEntryAndAdvance at h
  split at h
  · cases h
  · split at h
    · cases h
    · rename_i sh l1 hd1
      split at h
      · cases h
      · split at h
        · cases h
        · rename_i nsh l2 hd2
          split at h
          · cases h
          · split at h
            · cases h
            · rename_i vs l3 hd3
              have b3 := decodeVarint_some_len _ _ _ hd3
              simp only [List.length_drop] at b3
              dsimp only at h
              split at h
              · cases h
              · simp only [Res.ok.injEq, Prod.mk.injEq] at h
                obtain ⟨h1, _, _, h4⟩ := h
                subst h1; subst h4
                refine ⟨rfl, rfl, rfl, rfl, rfl, ?_⟩
                omega

theorem assembleKey_ok {it it' : BlockIter} {off s ns : Nat} (h : it.assembleKey off s ns = .ok it') :
    it'.block = it.block ∧ it'.restartsOff = it.restartsOff ∧ it'.curRestartIx = it.curRestartIx ∧
    it'.curEntryOff = it.curEntryOff ∧ it'.offset = it.offset ∧ it'.valOffset = it.valOffset := by
  unfold BlockIter.assembleKey at h
  split at h
  · simp only [Res.ok.injEq] at h; subst h; exact ⟨rfl, rfl, rfl, rfl, rfl, rfl⟩
  · cases h

theorem getRestartPoint_lt {it : BlockIter} {ix v : Nat} (h : it.getRestartPoint ix = .ok v) : v < 2 ^ 32 := by
  unfold BlockIter.getRestartPoint fixed32At at h
  cases hs : slice? it.block (it.restartsOff + 4 * ix) (it.restartsOff + 4 * ix + 4) with
  | none => rw [hs] at h; cases h
  | some x =>
    rw [hs] at h
    simp only [Option.map_some, Res.ok.injEq] at h
    subst h; exact decodeFixed32_lt _

end FuncsTie.BlockIterBasic

#print axioms Gen_bi_number_restarts_tie
#print axioms Gen_bi_number_restarts_short
#print axioms Gen_bi_get_restart_point_tie
#print axioms Gen_bi_reset_tie
#print axioms Gen_bi_valid_tie
#print axioms Gen_bi_assemble_key_tie
#print axioms Gen_bi_parse_entry_and_advance_tie

end Sst
