import SstModel.Generated.Funcs
import SstModel.Model.Filter
import SstModel.Model.Cmp
/- Function-level tie: filter_block.rs `get_filter_index` (translated by tools/gen_funcs.py) equals the model. -/
namespace Sst

theorem Gen_get_filter_index_tie (off b : Nat) (hb : b < 64) :
    Gen.get_filter_index off b = .ok (FilterBlockBuilder.filterIndex off b) := by
  simp [Gen.get_filter_index, FilterBlockBuilder.filterIndex, Rt.shrChk, hb]

theorem Gen_get_filter_index_panics (off b : Nat) (hb : 64 ≤ b) :
    (Gen.get_filter_index off b).isPanic = true := by
  have : ¬ b < 64 := by omega
  simp [Gen.get_filter_index, Rt.shrChk, this, Res.isPanic]

end Sst

#print axioms Sst.Gen_get_filter_index_tie
#print axioms Sst.Gen_get_filter_index_panics
