import SstModel.Props.C17
import SstModel.Props.FuncsTie.Sep
import SstModel.Props.FuncsTie.Succ
/-
  Property statements about the code AS TRANSLATED from /repo/src on this run (no hand-written model in the
  statement): each is the property theorem about the model composed with the tie theorem of the function.
  They are re-checked whenever the Rust function changes.
-/
namespace Sst
open Spec DefaultCmp

/-- C17 for the translation of `DefaultCmp::find_shortest_sep` (cmp.rs): for every a < b the function returns
    (it does not panic) a separator s with a ≤ s < b and |s| ≤ |a| + 1, in the textbook lexicographic order. -/
theorem C17_sep_of_the_translated_code (a b : Bytes) (h : LexLt a b) (fuel : Nat) (hf : a.length < fuel) :
    ∃ s, Gen.find_shortest_sep fuel a b = .ok s ∧ LexLe a s ∧ LexLt s b ∧ s.length ≤ a.length + 1 := by
  have hlt : blt a b := (model_order_is_lex a b).mpr h
  have hab : cmpBytes a b ≠ .gt := by
    unfold blt at hlt
    rw [hlt]; decide
  refine ⟨findShortestSep a b, Gen_find_shortest_sep_tie a b fuel hf hab, ?_⟩
  exact C17_sep a b h

/-- C17 for the translation of `DefaultCmp::find_short_succ`: a ≤ succ(a) (indeed a < succ(a)) for every a. -/
theorem C17_succ_of_the_translated_code (a : Bytes) (fuel : Nat) (hf : a.length < fuel) :
    ∃ s, Gen.find_short_succ fuel a = .ok s ∧ LexLe a s ∧ LexLt a s :=
  ⟨findShortSucc a, Gen_find_short_succ_tie a fuel hf, C17_succ a, C17_succ_strict a⟩

#print axioms C17_sep_of_the_translated_code
#print axioms C17_succ_of_the_translated_code

end Sst
