import SstModel.Generated.Funcs
import SstModel.Model.Block
import SstModel.Props.FuncsTie.Same
import SstModel.Props.FuncsTie.BlockIterBasic
import SstModel.Props.FuncsTie.BlockIterStep
import SstModel.Props.FuncsTie.BlockIterBack
/-
  Function-level tie for block.rs, part 4: the regenerated translations of `BlockIter::current`,
  `SSIterator::next` (default method, instantiated for `BlockIter`) and `BlockIter::seek` compute the
  model functions `BlockIter.current` / `BlockIter.next` / `BlockIter.seek` (Model/Block.lean), panics
  included (up to the text of the panic site); for `seek`, whenever the model's own loop fuels suffice.

  Hypotheses:
  * `current` needs none (the out-parameters are returned unchanged when the iterator is not valid);
  * `next` inherits those of `advance` (BlockIterStep.lean): `block.length < 2^64` (a `Vec<u8>`),
    `4 ≤ block.length` (Rust's `number_restarts` slices `block[len-4..]`), `curRestartIx + 1 < 2^64`
    (checked `usize` addition), translated fuel above the number of restarts;
  * `seek` resets the iterator first, so it needs no bound on `curRestartIx`; the midpoint
    `(left + right + 1) / 2` cannot overflow because both bounds stay ≤ the number of restarts < 2^32
    (invariant `InvB`); the translated fuel must cover the model fuels `numberRestarts + 2` (binary
    search) and `block.length + 2` (linear scan) and the restart loop of `advance`;
    `it.seek cmp to ≠ .diverge` says that the model's own fuels suffice.

  Method as in BlockIterBack.lean: the model loops `seekBinSearch` / `seekLinear` are shown to BE
  `Rt.loopFuel`s of model steps (`stepB`, `stepL`) followed by the code behind the loop (`postB`: the
  `assert_eq!(left, right)`; `postL`: `return` from inside the loop and falling out of it coincide), then
  `loop_sameND` compares them with the translated loops.
-/
set_option linter.unusedSimpArgs false
namespace Sst
open FuncsTie.BlockIterBasic FuncsTie.BlockIterStep FuncsTie.BlockIterBack

/-! ### current -/

theorem Gen_bi_current_tie (it : BlockIter) (k v : Bytes) :
    Res.same (Gen.bi_current it k v)
      (match it.current with
       | .ok (some (key, val)) => .ok (true, key, val)
       | .ok none => .ok (false, k, v)
       | .err c => .err c
       | .panic s => .panic s
       | .diverge => .diverge) := by
  unfold Gen.bi_current BlockIter.current
  rw [Gen_bi_valid_tie, bind_ok]
  cases hv : it.valid with
  | false =>
    simp only [Bool.false_eq_true, if_false, Res.pure_eq, Res.same]
  | true =>
    simp only [if_true]
    unfold Rt.sliceChk
    cases hs : slice? it.block it.valOffset it.offset with
    | none => simp only [bind_panic, Res.same]
    | some x => simp only [bind_ok, Res.pure_eq, List.nil_append, Res.same]

/-! ### next -/

theorem Gen_bi_next_tie (it : BlockIter) (fuel : Nat) (hlen : it.block.length < 2 ^ 64)
    (h4 : 4 ≤ it.block.length) (hix : it.curRestartIx + 1 < 2 ^ 64) (hfuel : it.numberRestarts < fuel) :
    Res.same (Gen.bi_next fuel it) it.next := by
  unfold Gen.bi_next BlockIter.next
  refine same_bind (Gen_bi_advance_tie it fuel hlen h4 hix hfuel) ?_
  intro p _
  obtain ⟨it1, b⟩ := p
  cases b with
  | false => simp only [Bool.not_false, if_true, Res.pure_eq, Res.same]
  | true =>
    simp only [Bool.not_true, Bool.false_eq_true, if_false]
    have hc := Gen_bi_current_tie it1 [] []
    cases hcur : it1.current with
    | ok o =>
      rw [hcur] at hc
      cases o with
      | none =>
        rw [Res.same_ok hc]
        simp only [bind_ok, Bool.false_eq_true, if_false, Res.pure_eq, Res.same]
      | some kv =>
        obtain ⟨key, val⟩ := kv
        rw [Res.same_ok hc]
        simp only [bind_ok, if_true, Res.pure_eq, Res.same]
    | err c =>
      rw [hcur] at hc
      cases hg : Gen.bi_current it1 [] [] <;> rw [hg] at hc <;> simp only [Res.same] at hc
      subst hc; simp only [Res.bind_err, Res.same]
    | panic s =>
      rw [hcur] at hc
      cases hg : Gen.bi_current it1 [] [] <;> rw [hg] at hc <;> simp only [Res.same] at hc
      simp only [bind_panic, Res.same]
    | diverge =>
      rw [hcur] at hc
      cases hg : Gen.bi_current it1 [] [] <;> rw [hg] at hc <;> simp only [Res.same] at hc
      simp only [Res.bind_diverge, Res.same]

/-! ### seek -/

namespace FuncsTie.BlockIterSeek

/-- a loop whose body never returns from the function does not either -/
theorem loopFuel_no_ret {σ ρ : Type} (body : σ → Res (Rt.LStep σ ρ))
    (hb : ∀ s r, body s ≠ .ok (.ret r)) :
    ∀ (f : Nat) (s : σ) (r : ρ), Rt.loopFuel body f s ≠ .ok (.ret r) := by
  intro f
  induction f with
  | zero => intro s r h; cases h
  | succ f ih =>
    intro s r h
    rw [loopFuel_succ] at h
    cases hbs : body s with
    | ok st =>
      rw [hbs] at h
      cases st with
      | cont s' => exact ih s' r h
      | brk s' => cases h
      | ret r' => exact hb s r' hbs
    | err c => rw [hbs] at h; cases h
    | panic m => rw [hbs] at h; cases h
    | diverge => rw [hbs] at h; cases h

/-- an invariant kept by `continue` and `break` steps holds of the loop result -/
theorem loopFuel_inv {σ ρ : Type} (Inv : σ → Prop) (body : σ → Res (Rt.LStep σ ρ))
    (hc : ∀ s s', Inv s → body s = .ok (.cont s') → Inv s')
    (hk : ∀ s s', Inv s → body s = .ok (.brk s') → Inv s') :
    ∀ (f : Nat) (s s' : σ), Inv s → Rt.loopFuel body f s = .ok (.done s') → Inv s' := by
  intro f
  induction f with
  | zero => intro s s' _ h; cases h
  | succ f ih =>
    intro s s' hs h
    rw [loopFuel_succ] at h
    cases hbs : body s with
    | ok st =>
      rw [hbs] at h
      cases st with
      | cont s1 => exact ih s1 s' (hc s s1 hs hbs) h
      | brk s1 =>
        simp only [Res.ok.injEq, Rt.Flow.done.injEq] at h
        subst h; exact hk s s1 hs hbs
      | ret r' => cases h
    | err c => rw [hbs] at h; cases h
    | panic m => rw [hbs] at h; cases h
    | diverge => rw [hbs] at h; cases h

/-- the code behind a translated loop against model code of the shape `(loop >>= post) >>= rest` -/
theorem sameND_bind_post {α β γ : Type} {r m : Res α} {k : α → Res β} {post : α → Res γ}
    {g : γ → Res β} (h : sameND r m)
    (hk : ∀ a, m = .ok a → sameND (k a) (post a >>= g)) : sameND (r >>= k) ((m >>= post) >>= g) := by
  cases m with
  | ok a =>
    have h1 := Res.same_ok (h (by intro e; cases e))
    rw [h1, bind_ok, bind_ok]
    exact hk a rfl
  | err c =>
    have h1 := h (by intro e; cases e)
    cases r <;> simp only [Res.same] at h1
    subst h1; exact sameND_of_same (Res.same_refl _)
  | panic s =>
    have h1 := h (by intro e; cases e)
    cases r <;> simp only [Res.same] at h1
    exact sameND_of_same (same_panic _ _)
  | diverge => exact sameND_diverge _

/-- one iteration of the binary search; the loop variables of the translation are `(self, left, right)` -/
def stepB {ρ : Type} (cmp : Cmp) (to : Bytes) (p : BlockIter × Nat × Nat) :
    Res (Rt.LStep (BlockIter × Nat × Nat) ρ) :=
  if p.2.1 < p.2.2 then
    p.1.seekToRestartPoint ((p.2.1 + p.2.2 + 1) / 2) >>= fun it' =>
      if cmp.cmp it'.key to == .lt then .ok (.cont (it', (p.2.1 + p.2.2 + 1) / 2, p.2.2))
      else .ok (.cont (it', p.2.1, (p.2.1 + p.2.2 + 1) / 2 - 1))
  else .ok (.brk p)

/-- `assert_eq!(left, right)` behind the binary search -/
def postB {ρ : Type} : Rt.Flow (BlockIter × Nat × Nat) ρ → Res (BlockIter × Nat)
  | .done p => if p.2.1 = p.2.2 then .ok (p.1, p.2.1) else .panic "seek: left == right"
  | .ret _ => .panic "seek: no return in the binary search"

theorem seekBinSearch_eq {ρ : Type} (cmp : Cmp) (to : Bytes) : ∀ (f : Nat) (it : BlockIter) (l r : Nat),
    BlockIter.seekBinSearch cmp it to f l r =
      (Rt.loopFuel (stepB (ρ := ρ) cmp to) f (it, l, r) >>= postB) := by
  intro f
  induction f with
  | zero => intro it l r; rfl
  | succ f ih =>
    intro it l r
    unfold BlockIter.seekBinSearch
    rw [loopFuel_succ]
    unfold stepB
    by_cases c : l < r
    · rw [if_pos c, if_pos c]
      cases hs : it.seekToRestartPoint ((l + r + 1) / 2) with
      | ok it' =>
        simp only [hs, bind_ok]
        by_cases hc : (cmp.cmp it'.key to == Ordering.lt) = true
        · rw [if_pos hc, if_pos hc]; exact ih _ _ _
        · rw [if_neg hc, if_neg hc]; exact ih _ _ _
      | err c => simp only [hs]; rfl
      | panic m => simp only [hs]; rfl
      | diverge => simp only [hs]; rfl
    · rw [if_neg c, if_neg c]
      rfl

theorem stepB_no_ret {ρ : Type} (cmp : Cmp) (to : Bytes) (p : BlockIter × Nat × Nat) (r : ρ) :
    stepB cmp to p ≠ .ok (.ret r) := by
  unfold stepB
  by_cases c : p.2.1 < p.2.2
  · rw [if_pos c]
    intro h
    obtain ⟨it', _, h⟩ := bind_eq_ok h
    by_cases hc : (cmp.cmp it'.key to == Ordering.lt) = true
    · rw [if_pos hc] at h; cases h
    · rw [if_neg hc] at h; cases h
  · rw [if_neg c]; intro h; cases h

/-- invariant of the binary search: the block, and both bounds at most the number of restarts -/
def InvB (B : Bytes) (N : Nat) (p : BlockIter × Nat × Nat) : Prop :=
  p.1.block = B ∧ p.2.1 ≤ N ∧ p.2.2 ≤ N

theorem stepB_inv {ρ : Type} {B : Bytes} {N : Nat} (cmp : Cmp) (to : Bytes)
    (p p' : BlockIter × Nat × Nat) (hp : InvB B N p)
    (h : (stepB cmp to p : Res (Rt.LStep (BlockIter × Nat × Nat) ρ)) = .ok (.cont p')) : InvB B N p' := by
  unfold stepB at h
  obtain ⟨hB, hl, hr⟩ := hp
  by_cases c : p.2.1 < p.2.2
  · rw [if_pos c] at h
    obtain ⟨it', hs, h⟩ := bind_eq_ok h
    obtain ⟨hB', _⟩ := seekToRestartPoint_ok hs
    by_cases hc : (cmp.cmp it'.key to == Ordering.lt) = true
    · rw [if_pos hc] at h; cases h
      exact ⟨by rw [hB']; exact hB, by show (p.2.1 + p.2.2 + 1) / 2 ≤ N; omega, hr⟩
    · rw [if_neg hc] at h; cases h
      exact ⟨by rw [hB']; exact hB, hl, by show (p.2.1 + p.2.2 + 1) / 2 - 1 ≤ N; omega⟩
  · rw [if_neg c] at h; cases h

theorem stepB_inv_brk {ρ : Type} {B : Bytes} {N : Nat} (cmp : Cmp) (to : Bytes)
    (p p' : BlockIter × Nat × Nat) (hp : InvB B N p)
    (h : (stepB cmp to p : Res (Rt.LStep (BlockIter × Nat × Nat) ρ)) = .ok (.brk p')) : InvB B N p' := by
  unfold stepB at h
  by_cases c : p.2.1 < p.2.2
  · rw [if_pos c] at h
    obtain ⟨it', hs, h⟩ := bind_eq_ok h
    by_cases hc : (cmp.cmp it'.key to == Ordering.lt) = true
    · rw [if_pos hc] at h; cases h
    · rw [if_neg hc] at h; cases h
  · rw [if_neg c] at h; cases h; exact hp

/-- one iteration of the linear scan -/
def stepL (cmp : Cmp) (to : Bytes) (s : BlockIter) : Res (Rt.LStep BlockIter BlockIter) :=
  s.next >>= fun q =>
    match q.2 with
    | some kv => if cmp.cmp kv.1 to != .lt then .ok (.ret q.1) else .ok (.cont q.1)
    | none => .ok (.brk q.1)

/-- the code behind the linear scan: `return` inside the loop and falling out of it give the same -/
def postL : Rt.Flow BlockIter BlockIter → Res BlockIter
  | .done s => .ok s
  | .ret r => .ok r

theorem seekLinear_eq (cmp : Cmp) (to : Bytes) : ∀ (f : Nat) (it : BlockIter),
    BlockIter.seekLinear cmp it to f = (Rt.loopFuel (stepL cmp to) f it >>= postL) := by
  intro f
  induction f with
  | zero => intro it; rfl
  | succ f ih =>
    intro it
    unfold BlockIter.seekLinear
    rw [loopFuel_succ]
    unfold stepL
    cases hn : it.next with
    | ok q =>
      obtain ⟨it', o⟩ := q
      cases o with
      | none => rfl
      | some kv =>
        obtain ⟨k, v⟩ := kv
        simp only [bind_ok]
        by_cases hc : (cmp.cmp k to != Ordering.lt) = true
        · rw [if_pos hc, if_pos hc]; rfl
        · rw [if_neg hc, if_neg hc]; exact ih _
    | err c => rfl
    | panic m => rfl
    | diverge => rfl

theorem next_ok {s s' : BlockIter} {o : Option (Bytes × Bytes)} (h : s.next = .ok (s', o)) :
    ∃ b, s.advance = .ok (s', b) := by
  unfold BlockIter.next at h
  obtain ⟨p, hp, h⟩ := bind_eq_ok h
  obtain ⟨s1, b⟩ := p
  refine ⟨b, ?_⟩
  dsimp only at h
  cases b with
  | false =>
    simp only [Bool.not_false, if_true, Res.pure_eq, Res.ok.injEq, Prod.mk.injEq] at h
    rw [hp, h.1]
  | true =>
    simp only [Bool.not_true, Bool.false_eq_true, if_false] at h
    obtain ⟨c, _, h⟩ := bind_eq_ok h
    simp only [Res.pure_eq, Res.ok.injEq, Prod.mk.injEq] at h
    rw [hp, h.1]

theorem stepL_inv {B : Bytes} (cmp : Cmp) (to : Bytes) (s s' : BlockIter) (hs : Inv B s)
    (h : stepL cmp to s = .ok (.cont s')) : Inv B s' := by
  unfold stepL at h
  obtain ⟨q, hq, h⟩ := bind_eq_ok h
  obtain ⟨s1, o⟩ := q
  obtain ⟨b, hadv⟩ := next_ok hq
  cases o with
  | none => cases h
  | some kv =>
    dsimp only at h
    by_cases hc : (cmp.cmp kv.1 to != Ordering.lt) = true
    · rw [if_pos hc] at h; cases h
    · rw [if_neg hc] at h; cases h
      exact Inv_advance hs hadv

theorem divChk_ok {a b : Nat} {s : String} (h : b ≠ 0) : Rt.divChk a b s = .ok (a / b) := by
  unfold Rt.divChk; rw [if_neg h]

/-- `let right = if n == 0 { 0 } else { n - 1 }` -/
theorem right_eq (N : Nat) (s : String) :
    (if (N == 0) = true then (pure 0 : Res Nat) else Rt.subChk N 1 s) =
      .ok (if N = 0 then 0 else N - 1) := by
  by_cases h : N = 0
  · subst h; rfl
  · have hb : ¬ (N == 0) = true := fun e => h (eq_of_beq e)
    rw [if_neg hb, if_neg h, subChk_ok (by omega)]

/-- the model's `seek` with its `let`s spelled out -/
theorem seek_eq (cmp : Cmp) (it : BlockIter) (to : Bytes) :
    it.seek cmp to =
      ((BlockIter.seekBinSearch cmp it.reset to (it.reset.numberRestarts + 2) 0
          (if it.reset.numberRestarts = 0 then 0 else it.reset.numberRestarts - 1)) >>= fun p =>
        (p.1.getRestartPoint p.2 >>= fun off =>
          BlockIter.seekLinear cmp { p.1 with curRestartIx := p.2, offset := off } to
            (p.1.block.length + 2))) := rfl

end FuncsTie.BlockIterSeek

open FuncsTie.BlockIterSeek

theorem Gen_bi_seek_sameND (cmp : Cmp) (it : BlockIter) (to : Bytes) (fuel : Nat)
    (hlen : it.block.length < 2 ^ 64) (h4 : 4 ≤ it.block.length)
    (hfuel : it.block.length + it.numberRestarts + 4 < fuel) :
    sameND (Gen.bi_seek fuel cmp it to) (it.seek cmp to) := by
  rw [seek_eq]
  unfold Gen.bi_seek
  rw [Gen_bi_reset_tie, bind_ok]
  have hN0 : it.reset.numberRestarts = it.numberRestarts := rfl
  have hNlt := numberRestarts_lt it
  rw [Gen_bi_number_restarts_tie it.reset h4, bind_ok, hN0]
  have hR : (if it.numberRestarts = 0 then 0 else it.numberRestarts - 1) ≤ it.numberRestarts := by
    split <;> omega
  simp only [right_eq, bind_ok]
  rw [seekBinSearch_eq (ρ := BlockIter)]
  refine sameND_bind_post ?_ ?_
  · -- the binary search
    refine loop_sameND (InvB it.block it.numberRestarts) _ _ ?_ (fun p p' => stepB_inv cmp to p p')
      _ _ _ ⟨rfl, Nat.zero_le _, hR⟩ (by omega)
    intro p hp
    obtain ⟨s1, l, r⟩ := p
    obtain ⟨hB, hl, hr⟩ := hp
    try dsimp only at hB hl hr ⊢
    unfold stepB
    try dsimp only
    by_cases c : l < r
    · have a1 : l + r < 18446744073709551616 := by omega
      have a2 : l + r + 1 < 18446744073709551616 := by omega
      have a3 : 1 ≤ (l + r + 1) / 2 := by omega
      simp only [decide_eq_true c, if_true, if_pos c, addW_ok a1, addW_ok a2, bind_ok,
        divChk_ok (show (2 : Nat) ≠ 0 by decide)]
      refine same_bind (Gen_bi_seek_to_restart_point_tie s1 _ (by rw [hB]; exact hlen)) ?_
      intro s2 _
      by_cases hc : (cmp.cmp s2.key to == Ordering.lt) = true
      · simp only [if_pos hc, Res.pure_eq]
        exact Res.same_refl _
      · simp only [if_neg hc, subChk_ok a3, bind_ok, Res.pure_eq]
        exact Res.same_refl _
    · simp only [decide_eq_false c, Bool.false_eq_true, if_false, if_neg c, Res.pure_eq]
      exact Res.same_refl _
  · intro a ha
    cases a with
    | ret x => exact absurd ha (loopFuel_no_ret _ (stepB_no_ret cmp to) _ _ _)
    | done p =>
      have hinv := loopFuel_inv (InvB it.block it.numberRestarts) _
        (fun p p' => stepB_inv cmp to p p') (fun p p' => stepB_inv_brk cmp to p p')
        _ _ _ ⟨rfl, Nat.zero_le _, hR⟩ ha
      obtain ⟨s1, l, r⟩ := p
      obtain ⟨hB, hl, hr⟩ := hinv
      try dsimp only at hB hl hr ⊢
      unfold postB
      try dsimp only
      by_cases hlr : l = r
      · subst hlr
        simp only [beq_self_eq_true, Rt.assertR, if_true, bind_ok]
        have hl1 : s1.block.length < 2 ^ 64 := by rw [hB]; exact hlen
        refine sameND_bind (m := s1.getRestartPoint l)
          (sameND_of_same (Gen_bi_get_restart_point_tie { s1 with curRestartIx := l } l hl1)) ?_
        intro off _
        try dsimp only
        rw [seekLinear_eq]
        refine sameND_bind ?_ ?_
        · -- the linear scan
          refine loop_sameND (Inv it.block) _ _ ?_ (fun s s' => stepL_inv cmp to s s')
            _ _ _ ⟨hB, by show l + 1 < 2 ^ 64; omega⟩ (by rw [hB]; omega)
          intro s hs
          obtain ⟨hsB, hsc⟩ := hs
          have hnext := Gen_bi_next_tie s fuel (by rw [hsB]; exact hlen) (by rw [hsB]; exact h4) hsc
            (by rw [numberRestarts_congr hsB]; omega)
          unfold stepL
          try simp only [if_true]
          refine same_bind hnext ?_
          intro q _
          obtain ⟨s', o⟩ := q
          cases o with
          | none => exact Res.same_refl _
          | some kv =>
            obtain ⟨k, v⟩ := kv
            try dsimp only
            cases hcmp : cmp.cmp k to <;> exact Res.same_refl _
        · intro a _
          cases a <;> exact sameND_of_same (Res.same_refl _)
      · have hb : (l == r) = false := by
          cases hbb : (l == r) with
          | false => rfl
          | true => exact absurd (eq_of_beq hbb) hlr
        simp only [hb, Rt.assertR, Bool.false_eq_true, if_false, if_neg hlr, bind_panic]
        exact sameND_of_same (same_panic _ _)

theorem Gen_bi_seek_tie (cmp : Cmp) (it : BlockIter) (to : Bytes) (fuel : Nat)
    (hlen : it.block.length < 2 ^ 64) (h4 : 4 ≤ it.block.length)
    (hfuel : it.block.length + it.numberRestarts + 4 < fuel) (hnd : it.seek cmp to ≠ .diverge) :
    Res.same (Gen.bi_seek fuel cmp it to) (it.seek cmp to) :=
  Gen_bi_seek_sameND cmp it to fuel hlen h4 hfuel hnd

#print axioms Gen_bi_current_tie
#print axioms Gen_bi_next_tie
#print axioms Gen_bi_seek_tie

end Sst
