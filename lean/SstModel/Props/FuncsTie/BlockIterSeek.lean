import SstModel.Generated.Funcs
import SstModel.Model.Block
import SstModel.Props.FuncsTie.Same
import SstModel.Props.FuncsTie.BlockIterBasic
import SstModel.Props.FuncsTie.BlockIterStep
import SstModel.Props.FuncsTie.BlockIterBack
/-
  Function-level tie for block.rs, part 4: the regenerated translations of `BlockIter::current`,
  `SSIterator::next` (default method, instantiated for `BlockIter`) and `BlockIter::seek` compute the
  model functions `BlockIter.current` / `BlockIter.next` / `BlockIter.seek` (Model/Block.lean), panics
  included (up to the text of the panic site); for `seek`, whenever the model's own loop fuels suffice.
-/
set_option linter.unusedSimpArgs false
namespace Sst
open FuncsTie.BlockIterBasic FuncsTie.BlockIterStep FuncsTie.BlockIterBack

/-! ### current -/

theorem Gen_bi_current_tie (it : BlockIter) (k v : Bytes) :
    Res.same (Gen.bi_current it k v)
      (match it.current with
       | .ok (some (key, val)) => .ok (true, key, val)
       | .ok none => .ok (false, k, v)
       | .err c => .err c
       | .panic s => .panic s
       | .diverge => .diverge) := by
  unfold Gen.bi_current BlockIter.current
  rw [Gen_bi_valid_tie, bind_ok]
  cases hv : it.valid with
  | false =>
    simp only [Bool.false_eq_true, if_false, Res.pure_eq, Res.same]
  | true =>
    simp only [if_true]
    unfold Rt.sliceChk
    cases hs : slice? it.block it.valOffset it.offset with
    | none => simp only [bind_panic, Res.same]
    | some x => simp only [bind_ok, Res.pure_eq, List.nil_append, Res.same]

/-! ### next -/

theorem Gen_bi_next_tie (it : BlockIter) (fuel : Nat) (hlen : it.block.length < 2 ^ 64)
    (h4 : 4 ≤ it.block.length) (hix : it.curRestartIx + 1 < 2 ^ 64) (hfuel : it.numberRestarts < fuel) :
    Res.same (Gen.bi_next fuel it) it.next := by
  unfold Gen.bi_next BlockIter.next
  refine same_bind (Gen_bi_advance_tie it fuel hlen h4 hix hfuel) ?_
  intro p _
  obtain ⟨it1, b⟩ := p
  cases b with
  | false => simp only [Bool.not_false, if_true, Res.pure_eq, Res.same]
  | true =>
    simp only [Bool.not_true, Bool.false_eq_true, if_false]
    have hc := Gen_bi_current_tie it1 [] []
    cases hcur : it1.current with
    | ok o =>
      rw [hcur] at hc
      cases o with
      | none =>
        rw [Res.same_ok hc]
        simp only [bind_ok, Bool.false_eq_true, if_false, Res.pure_eq, Res.same]
      | some kv =>
        obtain ⟨key, val⟩ := kv
        rw [Res.same_ok hc]
        simp only [bind_ok, if_true, Res.pure_eq, Res.same]
    | err c =>
      rw [hcur] at hc
      cases hg : Gen.bi_current it1 [] [] <;> rw [hg] at hc <;> simp only [Res.same] at hc
      subst hc; simp only [Res.bind_err, Res.same]
    | panic s =>
      rw [hcur] at hc
      cases hg : Gen.bi_current it1 [] [] <;> rw [hg] at hc <;> simp only [Res.same] at hc
      simp only [bind_panic, Res.same]
    | diverge =>
      rw [hcur] at hc
      cases hg : Gen.bi_current it1 [] [] <;> rw [hg] at hc <;> simp only [Res.same] at hc
      simp only [Res.bind_diverge, Res.same]

#print axioms Gen_bi_current_tie
#print axioms Gen_bi_next_tie

end Sst
