import SstModel.Lemmas.CacheShare
/-
  C10 — The block cache is invisible.

  For every interleaving of operations issued through any number of iterators and lookups on any
  number of tables sharing one block cache of any capacity ≥ 1: each operation returns what it would
  return with a private unbounded cache; blocks of one table are never served to another; the number
  of cached blocks never exceeds the capacity; the file is read only for blocks that a
  least-recently-used cache of that capacity would not hold.

  (a)–(e) are the parts for one table (standing hypotheses: lawful `cmp`, reader policy `p`, image `t`
  with `t.WF cmp`, the filter block `fv` the policy sees, an opened handle `tb`); `C10_interleaving`
  puts them together for any number of tables, iterator handles and lookups on one `World`.
-/
namespace Sst
open Spec

section
variable (cmp : Cmp) (hc : cmp.Lawful) (p : FilterPolicy) (t : TableImg) (hwf : t.WF cmp)
  (fv : Option Bytes) (tb : Table) (hop : Opened tb t cmp p fv)
include hc hwf hop

/-- (a) capacity: no history of calls makes the cache exceed its capacity -/
theorem C10_capacity (ops : List IterOp) (w : World) (hw : WorldOK w tb t) (it : TableIter)
    (pos : Option (Nat × Nat)) (h : SimT t tb it pos)
    (hcap : 1 ≤ w.cache.cap) (hle : w.cache.count ≤ w.cache.cap) :
    (it.run ops w).1.cache.count ≤ (it.run ops w).1.cache.cap
      ∧ (it.run ops w).1.cache.cap = w.cache.cap := by
  obtain ⟨w', it', pos', outs, hrun, _, _, _, hfr⟩ :=
    reader_history cmp hc p t hwf fv tb hop ops w hw it pos h
  rw [hrun]
  exact ⟨hfr.bound hcap hle, hfr.cap⟩

/-- (b) sharing: a call on table A (the standing one) leaves table B (another cache id, any other
    image, the same or another file) in a good state: B's file, B's coherence — the cache holds under
    B's id only true contents of B's blocks — and the clean source are untouched, so B's own theorems
    keep applying -/
theorem C10_other_table_unaffected (tB : TableImg) (tbB : Table) (hid : tbB.cacheId ≠ tb.cacheId)
    (op : IterOp) (w : World) (hwA : WorldOK w tb t) (hwB : WorldOK w tbB tB) (it : TableIter)
    (pos : Option (Nat × Nat)) (h : SimT t tb it pos) : WorldOK (it.call op w).1 tbB tB := by
  obtain ⟨w', it', pos', out, hcall, _, _, _, hfr⟩ := call_ok cmp hc p t hwf fv tb hop op w hwA it pos h
  rw [hcall]
  exact CS.worldOK_of_frame hfr hid hwB

/-- (b) for whole histories -/
theorem C10_other_table_unaffected_run (tB : TableImg) (tbB : Table) (hid : tbB.cacheId ≠ tb.cacheId)
    (ops : List IterOp) (w : World) (hwA : WorldOK w tb t) (hwB : WorldOK w tbB tB) (it : TableIter)
    (pos : Option (Nat × Nat)) (h : SimT t tb it pos) : WorldOK (it.run ops w).1 tbB tB := by
  obtain ⟨w', it', pos', outs, hrun, _, _, _, hfr⟩ :=
    reader_history cmp hc p t hwf fv tb hop ops w hwA it pos h
  rw [hrun]
  exact CS.worldOK_of_frame hfr hid hwB

/-- (b) for lookups -/
theorem C10_other_table_unaffected_get (hsound : ∀ fb, fv = some fb → FilterSound p t fb)
    (hfwf : ∀ fb, fv = some fb → FilterBlockReader.isWellFormed fb = true)
    (tB : TableImg) (tbB : Table) (hid : tbB.cacheId ≠ tb.cacheId)
    (k : Bytes) (w : World) (hwA : WorldOK w tb t) (hwB : WorldOK w tbB tB) :
    WorldOK (tb.get k w).1 tbB tB := by
  obtain ⟨w', hget, _, hfr⟩ := get_ok cmp hc p t hwf fv tb hop hsound hfwf w hwA k
  rw [hget]
  exact CS.worldOK_of_frame hfr hid hwB

/-- (c) the id counter is advanced by `Table::new` only: no history of iterator calls moves it -/
theorem C10_ops_keep_counter (ops : List IterOp) (w : World) (hw : WorldOK w tb t) (it : TableIter)
    (pos : Option (Nat × Nat)) (h : SimT t tb it pos) :
    (it.run ops w).1.cache.nextId = w.cache.nextId := by
  obtain ⟨w', it', pos', outs, hrun, _, _, _, hfr⟩ :=
    reader_history cmp hc p t hwf fv tb hop ops w hw it pos h
  rw [hrun]
  exact hfr.nextId

/-- (c) … nor does a lookup -/
theorem C10_get_keeps_counter (hsound : ∀ fb, fv = some fb → FilterSound p t fb)
    (hfwf : ∀ fb, fv = some fb → FilterBlockReader.isWellFormed fb = true)
    (k : Bytes) (w : World) (hw : WorldOK w tb t) :
    (tb.get k w).1.cache.nextId = w.cache.nextId := by
  obtain ⟨w', hget, _, hfr⟩ := get_ok cmp hc p t hwf fv tb hop hsound hfwf w hw k
  rw [hget]
  exact hfr.nextId

end

/-- (c) ids: two opens on one cache get different ids, whatever happens in between (ids are taken from
    a counter that only `Table::new` advances, `open_ok`: `cacheId = (nextId + 1) % 2^64` and the new
    `nextId` is that value); stated for consecutive counter values -/
theorem C10_ids_distinct (n : Nat) : (n + 1) % 2 ^ 64 ≠ ((n + 1) % 2 ^ 64 + 1) % 2 ^ 64 := by
  omega

/-- (c) on the model: two consecutive `Table::new` on one cache (of the same or of different
    well-formed images, any files) return handles with different cache ids -/
theorem C10_two_opens_distinct (cmp1 : Cmp) (hc1 : cmp1.Lawful) (p1 : FilterPolicy) (t1 : TableImg)
    (hwf1 : t1.WF cmp1) (fv1 : Option Bytes) (hfv1 : FilterView p1 t1 fv1)
    (cmp2 : Cmp) (hc2 : cmp2.Lawful) (p2 : FilterPolicy) (t2 : TableImg)
    (hwf2 : t2.WF cmp2) (fv2 : Option Bytes) (hfv2 : FilterView p2 t2 fv2)
    (w : World) (f1 f2 : Nat) (hcw1 : CleanWorld w f1 t1.img) (hcw2 : CleanWorld w f2 t2.img) :
    ∃ w1 tb1 w2 tb2, Table.new ⟨cmp1, p1⟩ f1 t1.img.length w = (w1, .ok tb1)
      ∧ Table.new ⟨cmp2, p2⟩ f2 t2.img.length w1 = (w2, .ok tb2)
      ∧ tb1.cacheId ≠ tb2.cacheId := by
  obtain ⟨w1, tb1, hnew1, _, _, hid1, hcl1, hf1, _, _, hn1, _⟩ :=
    open_ok cmp1 hc1 p1 t1 hwf1 fv1 hfv1 w f1 hcw1
  have hcw2' : CleanWorld w1 f2 t2.img := ⟨by rw [hf1]; exact hcw2.file, hcl1.sched⟩
  obtain ⟨w2, tb2, hnew2, _, _, hid2, _⟩ := open_ok cmp2 hc2 p2 t2 hwf2 fv2 hfv2 w1 f2 hcw2'
  refine ⟨w1, tb1, w2, tb2, hnew1, hnew2, ?_⟩
  rw [hid1, hid2, hn1]
  exact C10_ids_distinct _

/-- (d) the Spec cursor is deterministic except for `prev` issued at an invalid position -/
theorem Spec.cursorRun_deterministic (cmp : Cmp) (es : List Entry) (p : Pos) (ops : List IterOp)
    (q q' : Pos) (outs outs' : List IterOut) (h1 : CursorRun cmp es p ops q outs)
    (h2 : CursorRun cmp es p ops q' outs') (hn : NoBlindPrev cmp es p ops) : q = q' ∧ outs = outs' := by
  have e1 := CS.cursorRun_det cmp es ops p q outs h1 hn
  have e2 := CS.cursorRun_det cmp es ops p q' outs' h2 hn
  rw [← e2] at e1
  exact ⟨congrArg Prod.fst e1, congrArg Prod.snd e1⟩

section
variable (cmp : Cmp) (hc : cmp.Lawful) (p : FilterPolicy) (t : TableImg) (hwf : t.WF cmp)
  (fv : Option Bytes) (tb : Table) (hop : Opened tb t cmp p fv)
include hc hwf hop

/-- (d) invisibility: the outputs of a history do not depend on the cache (its capacity, its contents,
    other clients): the same history from the same iterator state in two worlds that are both
    `WorldOK` (e.g. capacity 1 shared with others vs. a private unbounded cache) returns the same
    outputs, for every history without a `prev` issued at an invalid position -/
theorem C10_invisible (ops : List IterOp) (w1 w2 : World) (hw1 : WorldOK w1 tb t) (hw2 : WorldOK w2 tb t)
    (it : TableIter) (pos : Option (Nat × Nat)) (h : SimT t tb it pos)
    (hn : NoBlindPrev cmp t.entries (t.flatPos pos) ops) :
    ∃ r1 r2, (it.run ops w1).2 = .ok r1 ∧ (it.run ops w2).2 = .ok r2 ∧ r1.2 = r2.2 := by
  obtain ⟨w1', it1, pos1, outs1, hrun1, hcr1, _⟩ :=
    reader_history cmp hc p t hwf fv tb hop ops w1 hw1 it pos h
  obtain ⟨w2', it2, pos2, outs2, hrun2, hcr2, _⟩ :=
    reader_history cmp hc p t hwf fv tb hop ops w2 hw2 it pos h
  refine ⟨(it1, outs1), (it2, outs2), by rw [hrun1], by rw [hrun2], ?_⟩
  exact (Spec.cursorRun_deterministic cmp t.entries _ ops _ _ outs1 outs2 hcr1 hcr2 hn).2

/-- (d) … and these outputs are the Spec cursor's: a function of the entries, the start position and
    the calls alone -/
theorem C10_outputs_spec (ops : List IterOp) (w : World) (hw : WorldOK w tb t)
    (it : TableIter) (pos : Option (Nat × Nat)) (h : SimT t tb it pos)
    (hn : NoBlindPrev cmp t.entries (t.flatPos pos) ops) :
    ∃ r, (it.run ops w).2 = .ok r ∧ r.2 = (detRun cmp t.entries (t.flatPos pos) ops).2 := by
  obtain ⟨w', it', pos', outs, hrun, hcr, _⟩ := reader_history cmp hc p t hwf fv tb hop ops w hw it pos h
  refine ⟨(it', outs), by rw [hrun], ?_⟩
  exact congrArg Prod.snd (CS.cursorRun_det cmp t.entries ops _ _ outs hcr hn)

/-- (d) against a private cache: replace the shared cache by an empty one of ANY capacity `cap'` (one
    larger than the number of blocks never evicts: an unbounded cache) used by nobody else — the
    outputs are the same -/
theorem C10_vs_private_cache (ops : List IterOp) (w : World) (hw : WorldOK w tb t) (cap' : Nat)
    (it : TableIter) (pos : Option (Nat × Nat)) (h : SimT t tb it pos)
    (hn : NoBlindPrev cmp t.entries (t.flatPos pos) ops) :
    ∃ r1 r2, (it.run ops w).2 = .ok r1
      ∧ (it.run ops { w with cache := { cap := cap' } }).2 = .ok r2 ∧ r1.2 = r2.2 := by
  have hw2 : WorldOK { w with cache := { cap := cap' } } tb t :=
    ⟨⟨hw.clean.file, hw.clean.sched⟩, fun off c hm => by cases hm⟩
  exact C10_invisible cmp hc p t hwf fv tb hop ops w _ hw hw2 it pos h hn

/-- (d) lookups: `get` returns the Spec map's answer in every `WorldOK` world, whatever the cache holds -/
theorem C10_get_invisible (hsound : ∀ fb, fv = some fb → FilterSound p t fb)
    (hfwf : ∀ fb, fv = some fb → FilterBlockReader.isWellFormed fb = true)
    (k : Bytes) (w1 w2 : World) (hw1 : WorldOK w1 tb t) (hw2 : WorldOK w2 tb t) :
    (tb.get k w1).2 = .ok (Spec.lookup cmp t.entries k) ∧ (tb.get k w2).2 = (tb.get k w1).2 := by
  obtain ⟨w1', hget1, _⟩ := get_ok cmp hc p t hwf fv tb hop hsound hfwf w1 hw1 k
  obtain ⟨w2', hget2, _⟩ := get_ok cmp hc p t hwf fv tb hop hsound hfwf w2 hw2 k
  rw [hget1, hget2]
  exact ⟨rfl, rfl⟩

omit hc in
/-- (e) reads: an access to a data block goes to the file exactly when the shared cache does not hold
    the block under this table's key; on a miss the block is inserted, on a hit it is only moved to
    the front. Either way the true contents are returned. -/
theorem C10_read_iff_miss (w : World) (hw : WorldOK w tb t) (d : DBlock) (hd : d ∈ t.blocks) :
    let key := (tb.cacheId, d.handle.offset % 2 ^ 64)
    let w' := (tb.readBlock d.handle w).1
    (w'.readLog.length = w.readLog.length + (if (w.cache.get key).2.isSome then 0 else 1))
      ∧ w'.cache = (if (w.cache.get key).2.isSome then (w.cache.get key).1
                    else ((w.cache.get key).1).insert key d.blk.contents) := by
  have hrb := CS.readBlock_world cmp t hwf tb w hw.clean hop.fileSize d hd
  dsimp only
  rw [hrb]
  cases hg : (w.cache.get (tb.cacheId, d.handle.offset % 2 ^ 64)).2 with
  | some b => exact ⟨rfl, rfl⟩
  | none => exact ⟨rfl, rfl⟩

omit hc in
/-- (e) the read that a miss causes is one `read_at` of the block's own region of this table's file;
    a hit causes none; the value returned is the block's contents in both cases -/
theorem C10_read_exact (w : World) (hw : WorldOK w tb t) (d : DBlock) (hd : d ∈ t.blocks) :
    (tb.readBlock d.handle w).2 = .ok d.blk.contents
      ∧ (tb.readBlock d.handle w).1.readLog =
          (if (w.cache.get (tb.cacheId, d.handle.offset % 2 ^ 64)).2.isSome then w.readLog
           else (tb.file, d.handle.offset,
                  d.handle.size + Consts.tableBlockCksumLen + Consts.tableBlockCompressLen) :: w.readLog) := by
  have hoff : ∀ d1 ∈ t.blocks, ∀ d2 ∈ t.blocks, d1.handle.offset = d2.handle.offset →
      d1.blk.contents = d2.blk.contents := by
    intro d1 h1 d2 h2 ho
    rw [hwf.block_of_offset d1 h1 d2 h2 ho]
  obtain ⟨w', hok, _⟩ := readBlock_ok cmp t hwf tb w hw.clean hop.fileSize hw.coh hoff d hd
  refine ⟨by rw [hok], ?_⟩
  rw [CS.readBlock_world cmp t hwf tb w hw.clean hop.fileSize d hd]
  cases hg : (w.cache.get (tb.cacheId, d.handle.offset % 2 ^ 64)).2 with
  | some b => rfl
  | none => rfl

end

/-- (e) the list cache used by the table model IS the Spec LRU map. `CS.abs enc encV c` is the
    `Spec.Lru.State` with `c`'s capacity and `c`'s entries in the same (most-recent-first) order, keys
    encoded by ANY injective `enc : ℕ × ℕ → ℕ` and values by any `encV` (`Spec.Lru` is over ℕ keys
    and values); `LruCache.get` is `Spec.Lru.step (.get _)` — same new state, same answer — and
    `LruCache.insert` is `Spec.Lru.step (.insert _ _)`. -/
theorem lruCache_is_specLru {α : Type} (enc : Nat × Nat → Nat) (henc : ∀ a b, enc a = enc b → a = b)
    (encV : α → Nat) (c : LruCache α) (k : Nat × Nat) (v : α) :
    Spec.Lru.step (CS.abs enc encV c) (.get (enc k))
        = (CS.abs enc encV (c.get k).1, (c.get k).2.map encV)
      ∧ Spec.Lru.step (CS.abs enc encV c) (.insert (enc k) (encV v))
        = (CS.abs enc encV (c.insert k v), none) :=
  ⟨CS.get_sim enc henc encV c k, CS.insert_sim enc henc encV c k v⟩

/-- (e) put together: seen through the abstraction, `Table::read_block` on a data block performs
    `get` on the Spec LRU map of the cache's capacity, reads the file exactly when that `get` misses, and
    then performs `insert` of the block's contents on the Spec LRU map -/
theorem C10_read_iff_specLru_miss (cmp : Cmp) (p : FilterPolicy) (t : TableImg) (hwf : t.WF cmp)
    (fv : Option Bytes) (tb : Table) (hop : Opened tb t cmp p fv)
    (enc : Nat × Nat → Nat) (henc : ∀ a b, enc a = enc b → a = b) (encV : Bytes → Nat)
    (w : World) (hw : WorldOK w tb t) (d : DBlock) (hd : d ∈ t.blocks) :
    let k := enc (tb.cacheId, d.handle.offset % 2 ^ 64)
    let s := CS.abs enc encV w.cache
    let w' := (tb.readBlock d.handle w).1
    (w'.readLog.length = w.readLog.length + (if (Spec.Lru.step s (.get k)).2.isSome then 0 else 1))
      ∧ CS.abs enc encV w'.cache =
          (if (Spec.Lru.step s (.get k)).2.isSome then (Spec.Lru.step s (.get k)).1
           else (Spec.Lru.step (Spec.Lru.step s (.get k)).1 (.insert k (encV d.blk.contents))).1) := by
  have h := C10_read_iff_miss cmp p t hwf fv tb hop w hw d hd
  dsimp only at h ⊢
  rw [CS.get_sim enc henc encV, h.1, h.2]
  simp only [Option.isSome_map, true_and]
  split
  · rfl
  · rw [CS.insert_sim enc henc encV]

/-- … hence for every history of `get`/`insert` calls (the calls `Table::read_block` makes): the final
    states correspond and the answers are the Spec LRU's -/
theorem lruCache_run_is_specLru {α : Type} (enc : Nat × Nat → Nat) (henc : ∀ a b, enc a = enc b → a = b)
    (encV : α → Nat) (c : LruCache α) (ops : List (CS.COp α)) :
    Spec.Lru.run (CS.abs enc encV c) (ops.map (CS.COp.enc enc encV))
      = (CS.abs enc encV (CS.crun c ops).1, (CS.crun c ops).2.map (·.map encV)) :=
  CS.run_sim enc henc encV ops c

/-- an injective key encoding exists (Cantor pairing), so the two theorems above are not vacuous -/
theorem lruCache_enc_exists : ∃ enc : Nat × Nat → Nat, ∀ a b, enc a = enc b → a = b :=
  ⟨CS.pair, CS.pair_inj⟩

/-- C10, all tables together: `cls` are the tables opened on one shared cache (pairwise different cache
    ids), `owner i` is the table iterator handle `i` belongs to. For EVERY interleaving `evs` of iterator
    calls (through any handles) and lookups (on any of the tables), from any world in which every table
    is `WorldOK`: nothing fails; for each handle `i` the outputs of ITS calls form a Spec cursor run over
    ITS table's entries from ITS start position along ITS calls alone (no other client's operation shows);
    every lookup returns the Spec map's answer for its table; every table stays `WorldOK` (its cache
    entries are true contents of its own blocks); capacity and id counter are unchanged, and the number
    of cached blocks stays within the capacity. -/
theorem C10_interleaving (cls : List CS.Client) (hok : ∀ c ∈ cls, c.OK) (hids : CS.IdsDistinct cls)
    (owner : Nat → CS.Client) (hown : ∀ i, owner i ∈ cls) (evs : List CS.Ev)
    (hget : ∀ c k, CS.Ev.get c k ∈ evs → c ∈ cls ∧ c.GetOK)
    (w : World) (hw : ∀ c ∈ cls, WorldOK w c.tb c.t)
    (its : Nat → TableIter) (pos : Nat → Option (Nat × Nat))
    (hsim : ∀ i, SimT (owner i).t (owner i).tb (its i) (pos i)) :
    ∃ (w' : World) (its' : Nat → TableIter) (pos' : Nat → Option (Nat × Nat)) (outs : List CS.EvOut),
      CS.sysRun its evs w = (w', .ok (its', outs))
      ∧ (∀ i, CursorRun (owner i).cmp (owner i).t.entries ((owner i).t.flatPos (pos i)) (CS.callsOf i evs)
                ((owner i).t.flatPos (pos' i)) (CS.outsOf i outs))
      ∧ CS.getsOf outs = CS.specGets evs
      ∧ (∀ c ∈ cls, WorldOK w' c.tb c.t)
      ∧ (∀ i, SimT (owner i).t (owner i).tb (its' i) (pos' i))
      ∧ w'.cache.cap = w.cache.cap ∧ w'.cache.nextId = w.cache.nextId
      ∧ (1 ≤ w.cache.cap → w.cache.count ≤ w.cache.cap → w'.cache.count ≤ w'.cache.cap) :=
  CS.sysRun_ok cls hok hids owner hown evs hget w hw its pos hsim

/-- C10, invisibility in the interleaving: the outputs seen through handle `i` are what the SAME calls
    return on a private world `wp` (any cache: any capacity, empty or not, nobody else using it) — for
    every handle whose calls contain no `prev` at an invalid position -/
theorem C10_interleaving_invisible (cls : List CS.Client) (hok : ∀ c ∈ cls, c.OK) (hids : CS.IdsDistinct cls)
    (owner : Nat → CS.Client) (hown : ∀ i, owner i ∈ cls) (evs : List CS.Ev)
    (hget : ∀ c k, CS.Ev.get c k ∈ evs → c ∈ cls ∧ c.GetOK)
    (w : World) (hw : ∀ c ∈ cls, WorldOK w c.tb c.t)
    (its : Nat → TableIter) (pos : Nat → Option (Nat × Nat))
    (hsim : ∀ i, SimT (owner i).t (owner i).tb (its i) (pos i))
    (i : Nat) (hn : NoBlindPrev (owner i).cmp (owner i).t.entries ((owner i).t.flatPos (pos i)) (CS.callsOf i evs))
    (wp : World) (hwp : WorldOK wp (owner i).tb (owner i).t) :
    ∃ r rp, (CS.sysRun its evs w).2 = .ok r ∧ ((its i).run (CS.callsOf i evs) wp).2 = .ok rp
      ∧ CS.outsOf i r.2 = rp.2 := by
  obtain ⟨w', its', pos', outs, hrun, hcr, _⟩ :=
    C10_interleaving cls hok hids owner hown evs hget w hw its pos hsim
  have ho := hok _ (hown i)
  obtain ⟨wp', itp, posp, outsp, hrunp, hcrp, _⟩ :=
    reader_history (owner i).cmp ho.lawful (owner i).p (owner i).t ho.wf (owner i).fv (owner i).tb
      ho.opened (CS.callsOf i evs) wp hwp (its i) (pos i) (hsim i)
  refine ⟨(its', outs), (itp, outsp), by rw [hrun], by rw [hrunp], ?_⟩
  exact (Spec.cursorRun_deterministic _ _ _ _ _ _ _ _ (hcr i) hcrp hn).2

/-! ### examples -/

-- `NoBlindPrev` holds for a forward scan with a step back from a valid position …
example (cmp : Cmp) (a b : Bytes) :
    NoBlindPrev cmp [(a, b)] none [.next, .valid, .prev, .next, .next] := by
  simp [NoBlindPrev, blindPrev, detStep, Spec.advance, prevValid]

-- … and fails for `prev` on a fresh iterator
example (cmp : Cmp) (es : List Entry) : ¬ NoBlindPrev cmp es none [.prev] := by
  simp [NoBlindPrev, blindPrev]

-- the list cache at capacity 2: a hit moves to the front, an insert at capacity evicts the oldest
example : (CS.crun ({ cap := 2 } : LruCache Nat)
    [.insert (1, 0) 10, .insert (1, 8) 11, .get (1, 0), .insert (2, 0) 20, .get (1, 8), .get (1, 0)]).2
    = [none, none, some 10, none, none, some 10] := by decide

end Sst

#print axioms Sst.C10_capacity
#print axioms Sst.C10_other_table_unaffected
#print axioms Sst.C10_other_table_unaffected_run
#print axioms Sst.C10_other_table_unaffected_get
#print axioms Sst.C10_ids_distinct
#print axioms Sst.C10_two_opens_distinct
#print axioms Sst.C10_ops_keep_counter
#print axioms Sst.C10_get_keeps_counter
#print axioms Sst.Spec.cursorRun_deterministic
#print axioms Sst.C10_invisible
#print axioms Sst.C10_outputs_spec
#print axioms Sst.C10_vs_private_cache
#print axioms Sst.C10_get_invisible
#print axioms Sst.C10_read_iff_miss
#print axioms Sst.C10_read_exact
#print axioms Sst.lruCache_is_specLru
#print axioms Sst.C10_read_iff_specLru_miss
#print axioms Sst.lruCache_run_is_specLru
#print axioms Sst.lruCache_enc_exists
#print axioms Sst.C10_interleaving
#print axioms Sst.C10_interleaving_invisible
